"""Generators of protocol lines (one self-contained operation per line).
All randomness comes from one PRNG seeded by VERIF_SEED."""
import json, os, random

CODECS = ["dna", "iupac", "amino", "text", "mdna", "miupac", "deg"]


def hx(bs):
    return "-" if len(bs) == 0 else "".join(f"{b:02x}" for b in bs)


class G:
    def __init__(self, seed, work):
        self.r = random.Random(seed)
        ex = json.load(open(os.path.join(work, "extract.debug.json")))
        self.info = {c["name"]: c for c in ex["codecs"]}
        self.alpha = {n: [b for b in range(256) if not isinstance(c["try_from_ascii"][b], str)] for n, c in self.info.items()}
        self.width = {n: c["bits"] for n, c in self.info.items()}

    def text(self, codec, n):
        a = self.alpha[codec]
        return [self.r.choice(a) for _ in range(n)]

    def code(self, codec, byte):
        return self.info[codec]["try_from_ascii"][byte]

    def value(self, codec, t):
        """packed integer of the text (symbol i at bits [i*w, (i+1)*w))"""
        w = self.width[codec]
        return sum(self.code(codec, b) << (i * w) for i, b in enumerate(t))

    def canon_text(self, codec, n):
        """text over the display characters of items() (so that display(parse t) == t)"""
        info = self.info[codec]
        chars = [info["to_char"][c] for c in info["items"]]
        return [self.r.choice(chars) for _ in range(n)]


ENTRIES_TEXT = ["str", "string", "refstring", "fromstr", "parse", "fromstrtrait", "tryfromtrait"]
ENTRIES_BYTES = ["bytes", "vec"]
ENTRIES_SYMS = ["collect", "fromvec", "extend", "collectf", "collectn"]


def boundary_lengths(w, words=3, delta=2):
    out = {0, 1, 2, 3}
    for j in range(1, words + 1):
        base = (64 * j) // w
        for d in range(-delta, delta + 1):
            if base + d >= 0:
                out.add(base + d)
    return sorted(out)


def bad_bytes(g, codec, utf8_only):
    """bytes the codec refuses: lower case, digits, whitespace, neighbours of valid letters, high bytes"""
    a = set(g.alpha[codec])
    cands = [b for b in list(b"acgtnxN-.*?! 0\n\tUXZ@[`{~") + [x + 1 for x in a] + [x - 1 for x in a] + [x ^ 0x20 for x in a] if 0 <= b < 128 and b not in a]
    if not utf8_only:
        # high bytes, UTF-8 lead/continuation bytes, and the valid letters with bit 7 set (aliases under a 7-bit table lookup)
        cands += [0x80, 0xff, 0xc3, 0xa9] + sorted({x | 0x80 for x in a})
    return cands


def gen_C01(g, tier):
    r = g.r
    lines = []
    reps = 1 if tier == "quick" else 6
    for c in CODECS:
        w = g.width[c]
        Ls = boundary_lengths(w, 3 if tier == "quick" else 5)
        for n in Ls:
            for _ in range(reps):
                t = g.text(c, n)
                entries = ENTRIES_TEXT + ENTRIES_BYTES + ENTRIES_SYMS if tier != "quick" else [r.choice(ENTRIES_TEXT), r.choice(ENTRIES_BYTES), r.choice(ENTRIES_SYMS)]
                for e in entries:
                    lines.append(f"{c} show p {e} {hx(t)}")
                if n > 0:
                    i = r.randrange(n)
                    lines.append(f"{c} nth {i} p {r.choice(ENTRIES_BYTES)} {hx(t)}")
                    lines.append(f"{c} len p {r.choice(ENTRIES_TEXT)} {hx(t)}")
                # malformed: one refused byte at the start / end / random position, sometimes two
                for pos in ({0, n, r.randrange(n + 1)} if n else {0}):
                    for utf8_only in (True, False):
                        bb = r.choice(bad_bytes(g, c, utf8_only))
                        t2 = t[:pos] + [bb] + t[pos:]
                        if r.random() < 0.3:
                            q = r.randrange(len(t2) + 1)
                            t2 = t2[:q] + [r.choice(bad_bytes(g, c, utf8_only))] + t2[q:]
                        e = r.choice(ENTRIES_TEXT) if utf8_only else r.choice(ENTRIES_BYTES)
                        lines.append(f"{c} show p {e} {hx(t2)}")
        # multi-byte UTF-8 through the &str entry points
        t = g.text(c, 5)
        for e in ENTRIES_TEXT:
            lines.append(f"{c} show p {e} {hx(t[:2] + [0xc3, 0xa9] + t[2:])}")
        # long random texts
        for _ in range(3 if tier == "quick" else 40):
            n = r.randrange(100, 1000)
            t = g.text(c, n)
            lines.append(f"{c} show p {r.choice(ENTRIES_TEXT + ENTRIES_BYTES + ENTRIES_SYMS)} {hx(t)}")
            pos = r.randrange(n)
            lines.append(f"{c} show p vec {hx(t[:pos] + [r.choice(bad_bytes(g, c, False))] + t[pos:])}")
        # very long texts: beyond any fixed-size internal block (thousands of symbols), one with a refused byte near the end
        for n in ([2100] if tier == "quick" else [1400, 2100, 4100, 8200]):
            t = g.text(c, n)
            lines.append(f"{c} show p {r.choice(ENTRIES_TEXT)} {hx(t)}")
            lines.append(f"{c} show p collect {hx(t)}")
            lines.append(f"{c} show p bytes {hx(t[:n - 5] + [r.choice(bad_bytes(g, c, False))] + t[n - 5:])}")
        # every single byte as a one-character text
        for b in range(256):
            lines.append(f"{c} show p bytes {b:02x}")
        # the display routes of an owned sequence (Display for Seq, to_string, String::from(&Seq), String::from(Seq))
        for n in boundary_lengths(w, 2):
            lines.append(f"{c} showv p {r.choice(ENTRIES_TEXT)} {hx(g.canon_text(c, n))}")
        for _ in range(4 if tier == "quick" else 60):
            v, n = rand_value(g, c, r.randrange(0, 4), 80)
            lines.append(f"{c} showv {v}")
    return lines


FORMS = ["r", "rt", "rti", "ri", "rf", "full", "one"]


def form_args(form, a, b):
    """protocol (A, B) arguments selecting symbols a..b (half-open) with this form, or None if the form cannot express it"""
    if form == "r":
        return (a, b)
    if form == "rt":
        return (0, b) if a == 0 else None
    if form == "rti":
        return (0, b - 1) if a == 0 and b >= 1 else None
    if form == "ri":
        return (a, b - 1) if b >= 1 and b - 1 >= 0 else None
    if form == "rf":
        return None  # depends on the parent's length; handled by the caller
    if form == "full":
        return None
    if form == "one":
        return (a, 0) if b == a + 1 else None
    return None


def slice_expr(g, base, n, depth):
    """wrap `base` (a slice expression of length n) in `depth` in-bounds re-slicings; returns (expr, length)"""
    r = g.r
    e, ln = base, n
    for _ in range(depth):
        a = r.randrange(ln + 1)
        b = r.randrange(a, ln + 1)
        forms = [f for f in FORMS if form_args(f, a, b) is not None]
        if b == ln:
            forms.append("rf")
        if a == 0 and b == ln:
            forms.append("full")
        f = r.choice(forms)
        if f == "rf":
            A, B = a, 0
        elif f == "full":
            A, B = 0, 0
        else:
            A, B = form_args(f, a, b)
        e = f"sl {f} {A} {B} {e}"
        ln = b - a
    return e, ln


def gen_C03(g, tier):
    import math
    r = g.r
    lines = []
    big = [1 << 63, 1 << 62, (1 << 63) + (1 << 62), (1 << 64) - 1, (1 << 64) - 2]
    for c in CODECS:
        w = g.width[c]
        # method-call forms on an OWNED receiver (inherent methods of Seq take precedence over SeqSlice's through Deref):
        # every position whose symbol straddles a storage word, the ends, one past the end
        for n in ([0, 1, 64 // w + 3, 192 // w + 2] if tier == "quick" else [0, 1, 2, 64 // w, 64 // w + 3, 128 // w + 2, 192 // w + 2, 320 // w + 1]):
            t = g.text(c, n)
            straddle = [i for i in range(n) if (i * w) // 64 != ((i + 1) * w - 1) // 64]
            for i in sorted(set(straddle) | {0, n // 2, max(n - 1, 0), n, n + 1}):
                lines.append(f"{c} owned {i} p str {hx(t)}")
            if n >= 2:
                lines.append(f"{c} owned {n - 2} own {offset_slice(g, c, t, r.randrange(1, 64 // w + 2))}")
                lines.append(f"{c} owned {r.randrange(n)} trunc {n - 1} p str {hx(t)}")
                av = alt_value(g, c, n)
                if av:
                    lines.append(f"{c} owned {r.randrange(n)} {av}")
        # long parents (many storage words, several allocation growths): the last symbols, windows inside the last word
        for n in ([4096 * 64 // (64 * w) + 3] if tier == "quick" else [1100, 4096 // w + 3, 4096 * 64 // (64 * w) + 3, 5000]):
            t = g.text(c, n)
            base = f"p str {hx(t)}"
            lines.append(f"{c} show sl r {n - 3} {n} {base}")
            lines.append(f"{c} show sl rf {n - 1} 0 sl r 2 {n} {base}")
            lines.append(f"{c} nth {n - 1} {base}")
            lines.append(f"{c} get {n - 1} sl rf {n - 5} 0 {base}")
            lines.append(f"{c} get {n} {base}")
            lines.append(f"{c} owned {n - 1} {base}")
            lines.append(f"{c} show sl ri {n - 64 // w - 1} {n - 1} {base}")
        ns = [64 // w + 3, 128 // w + 2] if tier == "quick" else [64 // w + 3, 128 // w + 2, 192 // w + 1, 5]
        for n in ns:
            t = g.text(c, n)
            base = f"p str {hx(t)}"
            starts = range(0, min(n, 64 // math.gcd(w, 64) + 1) + 1)
            for a in starts:
                bs_ = sorted({a, a + 1, a + 2, (a + n) // 2, n - 1, n} & set(range(a, n + 1)))
                for b in bs_:
                    for f in FORMS:
                        if f == "rf":
                            if b != n:
                                continue
                            A, B = a, 0
                        elif f == "full":
                            if not (a == 0 and b == n):
                                continue
                            A, B = 0, 0
                        else:
                            ab = form_args(f, a, b)
                            if ab is None:
                                continue
                            A, B = ab
                        lines.append(f"{c} show sl {f} {A} {B} {base}")
                # symbol access through a slice starting at a
                if a < n:
                    for i in sorted({0, (n - a) // 2, n - a - 1}):
                        lines.append(f"{c} nth {i} sl rf {a} 0 {base}")
                        lines.append(f"{c} get {i} sl rf {a} 0 {base}")
                    for i in (n - a, n - a + 1):
                        lines.append(f"{c} nth {i} sl rf {a} 0 {base}")
                        lines.append(f"{c} get {i} sl rf {a} 0 {base}")
                        lines.append(f"{c} show sl one {i} 0 sl rf {a} 0 {base}")
            # the empty tail &s[len..] / empty head &s[..0] / &s[len..len], also of sub-slices
            for inner in (base, f"sl r 1 {n - 1} {base}", f"sl rf 2 0 sl rt 0 {n - 1} {base}"):
                ln_ = n if inner == base else (n - 2 if inner.startswith("sl r 1") else n - 3)
                lines.append(f"{c} show sl rf {ln_} 0 {inner}")
                lines.append(f"{c} show sl r {ln_} {ln_} {inner}")
                lines.append(f"{c} show sl rt 0 0 {inner}")
                lines.append(f"{c} len sl rf {ln_} 0 {inner}")
                lines.append(f"{c} show sl ri {ln_} {ln_ - 1} {inner}" if ln_ >= 1 else f"{c} show sl full 0 0 {inner}")
            # out of bounds just past the end, reversed bounds
            for (A, B) in [(0, n + 1), (0, n + 2), (n, n + 1), (n + 1, n + 1), (n + 1, n + 2), (2, 1), (n, n - 1), (n + 1, 0)]:
                for f in ("r", "ri", "rt", "rti", "rf", "one"):
                    lines.append(f"{c} show sl {f} {A} {B} {base}")
            # nested re-slicing, depth 1..3, then read every position
            for _ in range(8 if tier == "quick" else 120):
                d = r.randrange(1, 4)
                e, ln = slice_expr(g, base, n, d)
                lines.append(f"{c} show {e}")
                lines.append(f"{c} len {e}")
                if ln > 0:
                    i = r.randrange(ln)
                    lines.append(f"{c} nth {i} {e}")
                lines.append(f"{c} get {ln} {e}")
                lines.append(f"{c} nth {ln} {e}")
                # one step out of bounds at the innermost level
                lines.append(f"{c} show sl r 0 {ln + 1} {e}")
            # indices whose bit offset overflows usize (debug panics; release wraps: known finding)
            for v in big:
                lines.append(f"{c} nth {v} {base}")
                lines.append(f"{c} get {v} {base}")
                lines.append(f"{c} show sl r {v} {v} {base}")
                lines.append(f"{c} show sl ri 0 {v} {base}")
        # slices / symbol access of owned sequences whose bit vector starts mid-word (From<&BitSlice>)
        for off in ([3, 6, 61] if tier == "quick" else range(1, 64, 3)):
            n = 64 // w + 5
            t = g.text(c, n)
            fb = f"frombits {off} p str {hx(t)}"
            lines.append(f"{c} show {fb}")
            lines.append(f"{c} show sl r 1 {n - 1} {fb}")
            lines.append(f"{c} show sl r 1 3 sl rf 2 0 {fb}")
            lines.append(f"{c} nth {n // 2} {fb}")
            lines.append(f"{c} get {n - 1} {fb}")
            lines.append(f"{c} iter {fb}")
        # slices of owned copies, static k-mer derefs
        t = g.text(c, 9)
        lines.append(f"{c} show sl r 1 3 own sl r 2 8 p str {hx(t)}")
    return lines


def alt_codes(g, c):
    """bit patterns that decode to a symbol whose canonical code is different (#[alt] codes)"""
    w = g.width[c]
    tfb = g.info[c]["try_from_bits"]
    return [b for b in range(1 << w) if isinstance(tfb[b], int) and tfb[b] != b]


def codes_value(c, w, codes):
    """owned value holding exactly these chunk codes (Seq::from_raw of the packed words)"""
    n = len(codes)
    bits = sum(cd << (i * w) for i, cd in enumerate(codes))
    k = (n * w + 63) // 64
    ws = [(bits >> (64 * j)) & ((1 << 64) - 1) for j in range(k)]
    return f"fromwords {n} {k} {' '.join(map(str, ws))}".rstrip()


def alt_value(g, c, n):
    """owned value of n symbols stored partly under alternative codes (None when the codec has none)"""
    alts = alt_codes(g, c)
    if not alts or n == 0:
        return None
    canon = g.info[c]["items"]
    codes = [g.r.choice(alts) if g.r.random() < 0.4 else g.r.choice(canon) for _ in range(n)]
    codes[g.r.randrange(n)] = g.r.choice(alts)
    return codes_value(c, g.width[c], codes)


def rand_value(g, c, depth, maxlen=70):
    """random owned-value expression with its symbol count: parsed / collected / copied from an offset slice /
    reversed / complemented / masked / edited / rebuilt from its raw image"""
    r = g.r
    w = g.width[c]
    info = g.info[c]
    if depth <= 0 or r.random() < 0.3:
        import math
        per = math.lcm(64, w) // w   # symbols in the smallest whole number of storage words
        n = r.choice([0, 1, 2, 3, 5, 64 // w - 1, 64 // w, 64 // w + 1, per, 2 * per, r.randrange(0, maxlen), r.randrange(0, maxlen)])
        n = min(n, max(maxlen, per))
        if n and r.random() < 0.12:
            av = alt_value(g, c, n)
            if av:
                return av, n
        e = r.choice(ENTRIES_TEXT + ENTRIES_BYTES + ENTRIES_SYMS)
        return f"p {e} {hx(g.text(c, n))}", n
    k = r.randrange(15)
    if k == 14:
        # the borrowed bit operators: the result has the length of the left operand (equal lengths mostly)
        e, n = rand_slice(g, c, depth - 1, maxlen)
        if r.random() < 0.8:
            e2 = offset_slice(g, c, g.text(c, n), r.randrange(0, 64 // w + 1))
        else:
            e2, _ = rand_slice(g, c, depth - 1, maxlen)
        return f"{r.choice(['and', 'or'])} {e} {e2}", n
    if k == 0:
        e, n = rand_slice(g, c, depth - 1, maxlen)
        return f"own {e}", n
    if k == 1:
        e, n = rand_slice(g, c, depth - 1, maxlen)
        return f"into {e}", n
    v, n = rand_value(g, c, depth - 1, maxlen)
    if k == 2:
        ops = ["rev", "torev"] + (["comp", "revcomp", "tocomp", "torevcomp"] if info["has_comp"] else []) + (["mask", "unmask", "tomask", "tounmask"] if info["has_mask"] else [])
        return f"{r.choice(ops)} {v}", n
    if k == 3:
        e, n2 = rand_slice(g, c, depth - 1, maxlen)
        ops = ["storev"] + (["stocomp", "storevcomp"] if info["has_comp"] else [])
        return f"{r.choice(ops)} {e}", n2
    if k == 4:
        return f"push {r.randrange(50)} {v}", n + 1
    if k == 5:
        m = r.randrange(0, 6)
        if r.random() < 0.5:
            kind = r.choice(['filter', 'takewhile', 'fromfn', 'trait', 'iterskip', 'iternext', 'iterpeek', 'reviterskip'])
            return f"extk {kind} {hx(g.text(c, m))} {v}", n + (max(m - 1, 0) if kind in ('iterskip', 'iternext', 'reviterskip') else m)
        return f"ext {hx(g.text(c, m))} {v}", n + m
    if k in (6, 7):
        e, m = rand_slice(g, c, depth - 1, 20 if r.random() < 0.7 else 70)
        return f"{'append' if k == 6 else 'prepend'} {v} {e}", n + m
    if k == 8:
        e, m = rand_slice(g, c, depth - 1, 20)
        i = r.randrange(n + 1)
        return f"insert {i} {v} {e}", n + m
    if k == 9:
        a = r.randrange(n + 1)
        b = r.randrange(a, n + 1)
        return f"remove r {a} {b} {v}", n - (b - a)
    if k == 10:
        m = r.randrange(n + 3)
        return f"trunc {m} {v}", min(n, m)
    if k == 11:
        return f"clone {v}", n
    if k == 12:
        return f"fromraw {n} {v}", n
    return f"clear {v}", 0


def rand_slice(g, c, depth, maxlen=70):
    r = g.r
    v, n = rand_value(g, c, depth, maxlen)
    if r.random() < 0.4:
        return v, n
    return slice_expr(g, v, n, r.randrange(1, 3))


def offset_slice(g, c, t, lead):
    """the text `t` presented as a window starting `lead` symbols into a longer parent"""
    pre = g.text(c, lead)
    post = g.text(c, g.r.randrange(0, 3))
    return f"sl r {lead} {lead + len(t)} p str {hx(pre + t + post)}"


REM_FORMS = ["r", "ri", "rt", "rti", "rf", "full", "bie", "bii", "biu", "bee", "bei", "beu", "bue", "bui", "buu"]


def remove_args(form, s, e, n):
    """protocol (A, B) for removing the half-open symbol range [s, e) of a length-n sequence with this RangeBounds form"""
    sk = {"r": "i", "ri": "i", "rt": "u", "rti": "u", "rf": "i", "full": "u"}.get(form, form[1] if form.startswith("b") else None)
    ek = {"r": "e", "ri": "i", "rt": "e", "rti": "i", "rf": "u", "full": "u"}.get(form, form[2] if form.startswith("b") else None)
    if sk == "i":
        A = s
    elif sk == "e":
        if s == 0:
            return None
        A = s - 1
    else:
        if s != 0:
            return None
        A = 0
    if ek == "e":
        B = e
    elif ek == "i":
        if e == 0:
            return None
        B = e - 1
    else:
        if e != n:
            return None
        B = 0
    return A, B


def gen_C06(g, tier):
    r = g.r
    lines = []
    # bounded-exhaustive: all histories of length <= 2 (quick) / 3 (thorough) over a small op set on short dna sequences
    import itertools
    c = "dna"
    small_ops = []
    for n0 in (0, 1, 3):
        small_ops.append(n0)
    def ops_for(n):
        out = [("push 1", n + 1), ("ext 4354", n + 2), ("append _ sl r 1 3 p str 41434754", n + 2), ("prepend _ sl r 2 3 p str 41434754", n + 1), ("trunc %d" % max(n - 1, 0), max(n - 1, 0)), ("clear", 0)]
        for i in sorted({0, n // 2, n}):
            out.append(("insert %d _ sl r 1 2 p str 4754" % i, n + 1))
        for (a, b) in sorted({(0, 0), (0, min(1, n)), (n // 2, n), (0, n)}):
            out.append(("remove r %d %d" % (a, b), n - (b - a)))
        return out
    def build(expr, n, depth):
        lines.append(f"{c} show {expr}")
        if depth == 0:
            return
        for (op, n2) in ops_for(n):
            if "_" in op:
                head, tail = op.split(" _ ")
                e2 = f"{head} {expr} {tail}"
            else:
                e2 = f"{op} {expr}"
            build(e2, n2, depth - 1)
    for n0 in (0, 2):
        build(f"p str {hx(g.text(c, n0))}", n0, 2 if tier == "quick" else 3)
    # every edit with every in-bounds argument on sequences around the word boundary, argument slices at every offset
    for c in CODECS:
        w = g.width[c]
        for n in ([64 // w - 1, 64 // w + 2] if tier == "quick" else [1, 64 // w - 1, 64 // w, 64 // w + 2, 128 // w + 1]):
            t = g.text(c, n)
            base = f"p str {hx(t)}"
            positions = sorted({0, 1, n // 2, n - 1, n}) if tier == "quick" else range(n + 1)
            for lead in (range(0, 64 // w + 1, max(1, (64 // w) // 4)) if tier == "quick" else range(0, 64 // w + 2)):
                arg = offset_slice(g, c, g.text(c, r.choice([0, 1, 2, 5])), lead)
                i = r.choice(list(positions))
                if 0 <= i <= n:
                    lines.append(f"{c} show insert {i} {base} {arg}")
                lines.append(f"{c} show append {base} {arg}")
                lines.append(f"{c} show prepend {base} {arg}")
            for s in positions:
                for e in positions:
                    if 0 <= s <= e <= n:
                        for f in (REM_FORMS if tier != "quick" else r.sample(REM_FORMS, 5)):
                            ab = remove_args(f, s, e, n)
                            if ab:
                                lines.append(f"{c} show remove {f} {ab[0]} {ab[1]} {base}")
            for m in sorted({0, 1, n - 1, n, n + 1, n + 5}):
                if m >= 0:
                    lines.append(f"{c} show trunc {m} {base}")
            lines.append(f"{c} show clear {base}")
            # removal of exactly one or two 64-bit words' worth of symbols starting mid-word, on a longer sequence
            if 64 % w == 0:
                per_ = 64 // w
                long = g.text(c, 3 * per_ + 5)
                for s0 in (1, 5 % per_ + 1, per_ - 1, per_ + 3):
                    for ln in (per_, 2 * per_):
                        if s0 + ln <= len(long):
                            lines.append(f"{c} show remove r {s0} {s0 + ln} p str {hx(long)}")
                            lines.append(f"{c} raw remove r {s0} {s0 + ln} p str {hx(long)}")
                lines.append(f"{c} raw remove rt 0 {per_ // 2 + 1} p str {hx(long)}")
                lines.append(f"{c} raw remove r 0 3 p str {hx(long)}")
            # edits on a new / emptied sequence (retained capacity, argument windows at every offset), then clones of the result
            for lead in (0, 1, 64 // w - 1, 64 // w + 1):
                arg = offset_slice(g, c, g.text(c, r.choice([1, 3, 64 // w + 1])), lead)
                for empty in ("p str -", f"clear {base}", f"trunc 0 {base}", f"remove full 0 0 {base}"):
                    for ed in ("append", "prepend"):
                        lines.append(f"{c} show {ed} {empty} {arg}")
                        lines.append(f"{c} show clone {ed} {empty} {arg}")
                        lines.append(f"{c} raw clone {ed} {empty} {arg}")
                        lines.append(f"{c} show {ed} {ed} {empty} {arg} {arg}")
                    lines.append(f"{c} show clone insert 0 {empty} {arg}")
                    lines.append(f"{c} show push 1 clone append {empty} {arg}")
            # edits after a shrinking edit (stale bits above the live length must not leak)
            for shrink in (f"trunc {max(n - 2, 0)}", f"remove rf {max(n - 3, 0)} 0", f"fromraw {max(n - 1, 0)}", f"remove r 0 {min(2, n)}"):
                lines.append(f"{c} show push 0 {shrink} {base}")
                lines.append(f"{c} show push 1 push 0 {shrink} {base}")
                lines.append(f"{c} show ext {hx(g.text(c, 3))} {shrink} {base}")
                lines.append(f"{c} show append {shrink} {base} p str {hx(g.text(c, 2))}")
                lines.append(f"{c} raw push 0 {shrink} {base}")
            for kind in ("filter", "takewhile", "fromfn", "trait", "iterskip", "iternext", "iterpeek", "reviterskip"):
                for m in (0, 1, 3, 64 // w + 1):
                    lines.append(f"{c} show extk {kind} {hx(g.text(c, m))} {base}")
                    lines.append(f"{c} show push 1 extk {kind} {hx(g.text(c, m))} {base}")
            for e in ("collectf", "collectn"):
                lines.append(f"{c} show push 0 p {e} {hx(t)}")
            # out-of-bounds arguments
            lines.append(f"{c} show insert {n + 1} {base} p str -")
            lines.append(f"{c} show remove r 0 {n + 1} {base}")
            # (reversed bounds s > e are outside the property; in release bitvec's drain does not check them, so they are not generated)
            lines.append(f"{c} show remove bee {n} {n} {base}")
            lines.append(f"{c} show remove bii 0 {n} {base}")
        # word geometry: receivers and argument windows whose bit length is an exact multiple of 64 (whole storage
        # words), the window starting on and off a word boundary of its parent (seeded change C06h: a "whole words"
        # fast path of append that copied only the aligned body of a misaligned window)
        import math
        per = math.lcm(64, w) // w
        recvs = [0, per, per - 1] if tier == "quick" else [0, 1, per - 1, per, per + 1, 2 * per]
        alens = [per, 2 * per] if tier == "quick" else [per - 1, per, per + 1, 2 * per, 3 * per]
        leads = [0, 1, per - 1] if tier == "quick" else sorted({0, 1, 2, per // 2, per - 1, per, per + 1})
        for n in recvs:
            base = f"p str {hx(g.text(c, n))}"
            for m in alens:
                for lead in leads:
                    arg = offset_slice(g, c, g.text(c, m), lead)
                    lines.append(f"{c} show append {base} {arg}")
                    lines.append(f"{c} show prepend {base} {arg}")
                    lines.append(f"{c} show insert {r.choice(sorted({0, n // 2, n}))} {base} {arg}")
                    if lead == 1:
                        lines.append(f"{c} raw append {base} {arg}")
                        lines.append(f"{c} show append append {base} {arg} {arg}")
                        lines.append(f"{c} show ext {hx(g.text(c, per))} append {base} {arg}")
        # edits on long sequences (many words; growth past the initial capacity): ends, middle, whole-word removals
        for n in ([1100] if tier == "quick" else [1100, 4099, 8200]):
            t = g.text(c, n)
            base = f"p str {hx(t)}"
            arg = offset_slice(g, c, g.text(c, 70), 3)
            lines.append(f"{c} show push 1 push 0 {base}")
            lines.append(f"{c} show append {base} {arg}")
            lines.append(f"{c} show insert {n - 1} {base} {arg}")
            lines.append(f"{c} show insert {n // 2} {base} {arg}")
            for k in ((1, 16, 17) if tier == "quick" else (1, 2, 4, 8, 15, 16, 17, 31, 32, 33)):
                for d in (0, 1, 33, 63):
                    tail = (64 * k + d + w - 1) // w      # symbols after the insertion point: just over k words
                    if 0 < tail < n:
                        lines.append(f"{c} show insert {n - tail} {base} {offset_slice(g, c, g.text(c, r.choice([1, 3, 40])), r.randrange(0, 5))}")
                        lines.append(f"{c} show remove r {n - tail} {n - tail + 1} {base}")
            lines.append(f"{c} show remove r {n - 70} {n - 1} {base}")
            lines.append(f"{c} show remove rt 0 {n - 3} {base}")
            lines.append(f"{c} show trunc {n - 1} {base}")
            lines.append(f"{c} show ext {hx(g.text(c, 300))} {base}")
            lines.append(f"{c} raw prepend {base} {arg}")
        # long random histories crossing word boundaries, from every production route
        for _ in range(6 if tier == "quick" else 150):
            v, n = rand_value(g, c, r.randrange(2, 7 if tier == "quick" else 12), 200)
            lines.append(f"{c} show {v}")
            lines.append(f"{c} raw {v}")
    return lines


def gen_C07(g, tier):
    r = g.r
    lines = []
    for c in CODECS:
        w = g.width[c]
        info = g.info[c]
        ops_v = ["rev", "torev"] + (["comp", "revcomp", "tocomp", "torevcomp"] if info["has_comp"] else [])
        ops_s = ["storev"] + (["stocomp", "storevcomp"] if info["has_comp"] else [])
        Ls = boundary_lengths(w, 2 if tier == "quick" else 4)
        for n in Ls:
            t = g.text(c, n)
            base = f"p str {hx(t)}"
            for op in ops_v:
                lines.append(f"{c} show {op} {base}")
                lines.append(f"{c} show {op} {op} {base}")  # applied twice
            if info["has_comp"]:
                lines.append(f"{c} show rev comp {base}")
                lines.append(f"{c} show comp rev {base}")
            leads = range(0, 64 // w + 1, max(1, (64 // w) // 4)) if tier == "quick" else range(0, 64 // w + 2)
            for lead in leads:
                sl = offset_slice(g, c, t, lead)
                for op in ops_s:
                    lines.append(f"{c} show {op} {sl}")
                lines.append(f"{c} show rev own {sl}")
        # owned copying forms on values whose buffer was shortened from the front / cloned
        per_ = max(1, 64 // w)
        for k in sorted({1, 2, per_ // 2 + 1, per_ - 1}):
            t = g.text(c, per_ + 6)
            if k < len(t):
                for op in ops_v:
                    lines.append(f"{c} show {op} remove r 0 {k} p str {hx(t)}")
                    lines.append(f"{c} show {op} clone remove rt 0 {k} p str {hx(t)}")
                lines.append(f"{c} show torev torev remove r 0 {k} p str {hx(t)}")
        # content holding alternative codes (only reachable through the generic bit operators): symbols keep their identity
        if c == "mdna":
            for _ in range(6 if tier == "quick" else 60):
                n = r.randrange(1, 2 * per_)
                a_, b_ = g.text(c, n), g.text(c, n)
                for bop in ("or", "and"):
                    v_ = f"{bop} p str {hx(a_)} p str {hx(b_)}"
                    for op in ops_v:
                        lines.append(f"{c} show {op} {v_}")
                    lines.append(f"{c} show stocomp {v_}")
                    lines.append(f"{c} show storevcomp {v_}")
        # owned values whose bit vector starts mid-word (From<&BitSlice>): copying forms, clones
        for off in ((1, 37, 63) if tier == "quick" else range(1, 64, 3)):
            t = g.text(c, r.choice([1, per_ - 1, per_ + 2, 2 * per_ + 1]))
            for op in ops_v:
                lines.append(f"{c} show {op} frombits {off} p str {hx(t)}")
            lines.append(f"{c} show clone frombits {off} p str {hx(t)}")
            lines.append(f"{c} show torev clone frombits {off} p str {hx(t)}")
        # content stored under alternative codes (raw constructors): every form, owned and on offset windows, once and twice
        if alt_codes(g, c):
            for n in sorted({1, 2, per_ - 1, per_, per_ + 1, 2 * per_ + 1}):
                for _ in range(1 if tier == "quick" else 6):
                    av = alt_value(g, c, n)
                    for op in ops_v:
                        lines.append(f"{c} show {op} {av}")
                        lines.append(f"{c} show {op} {op} {av}")
                    for op in ops_s:
                        lines.append(f"{c} show {op} {av}")
                        lines.append(f"{c} show {op} {op} {av}")
                        if n >= 2:
                            lines.append(f"{c} show {op} sl r 1 {n} {av}")
                            lines.append(f"{c} show {op} sl rt 0 {n - 1} {av}")
        # long sequences (exact multiples of 64 words and one more symbol), every form once
        for n in ([64 * 64 // w, 64 * 64 // w + 1] if tier == "quick" else [1100, 64 * 64 // w, 64 * 64 // w + 1, 2 * 64 * 64 // w + 3]):
            t = g.text(c, n)
            for op in ops_v:
                lines.append(f"{c} show {op} p str {hx(t)}")
            for op in ops_s:
                lines.append(f"{c} show {op} {offset_slice(g, c, t, 5)}")
        # unsupported complement must be refused by both sides
        if not info["has_comp"]:
            lines.append(f"{c} show comp p str {hx(g.text(c, 3))}")
        for _ in range(5 if tier == "quick" else 100):
            v, n = rand_value(g, c, r.randrange(1, 5), 300)
            for op in ops_v:
                lines.append(f"{c} show {op} {v}")
    return lines


def gen_C11(g, tier):
    r = g.r
    lines = []
    for c in CODECS:
        w = g.width[c]
        for n in ([0, 1, 5, 64 // w + 1] if tier == "quick" else [0, 1, 2, 5, 64 // w - 1, 64 // w, 64 // w + 1, 128 // w + 3]):
            t = g.text(c, n)
            leads = [0, 1, 64 // w - 1] if tier == "quick" else range(0, 64 // w + 2)
            for lead in leads:
                sl = offset_slice(g, c, t, lead)
                lines.append(f"{c} iter {sl}")
                lines.append(f"{c} intoiter {sl}")
                lines.append(f"{c} reviter {sl}")
                widths = range(1, n + 3) if n <= 12 or tier != "quick" else sorted({1, 2, 3, n // 2, n - 1, n, n + 1, n + 2})
                for wd in widths:
                    lines.append(f"{c} windows {wd} {sl}")
                    lines.append(f"{c} chunks {wd} {sl}")
                other = offset_slice(g, c, g.text(c, r.randrange(0, 6)), r.randrange(0, 5))
                lines.append(f"{c} chain {sl} {other}")
            # the std adaptors (nth / skip / step_by / last / count / take) over the crate's iterators
            sl = offset_slice(g, c, t, r.randrange(0, 64 // w + 1))
            for kind in ("windows", "chunks", "iter", "reviter"):
                for ad in ("nth", "skip", "stepby", "last", "count", "take", "nthnext", "hint", "lastafter", "countafter", "foldafter", "nthhuge", "nthcount", "nthlast", "nthhint", "rev", "len"):
                    wd = r.randrange(1, max(2, min(n, 5) + 1))
                    arg = r.choice([0, 1, 2, 3, n // 2, n])
                    if ad.startswith("nth") and ad != "nth":
                        # also jumps landing exactly at / one / several items past the end
                        for over in (n, n + 1, n + 3):
                            lines.append(f"{c} adapt {kind} {wd} {ad} {over} {sl}")
                    lines.append(f"{c} adapt {kind} {wd} {ad} {arg} {sl}")
            for arg in sorted({0, 1, 2, n // 2, n, n + 1}):
                lines.append(f"{c} adapt iter 1 collectseq {arg} {sl}")
            lines.append(f"{c} intoiterv p str {hx(t)}")
            lines.append(f"{c} chunksvec 2 p str {hx(t)}")
            lines.append(f"{c} windows 0 p str {hx(t)}")
            # widths far beyond the length (up to usize::MAX): no item, no overflow
            for big_w in ((1 << 64) - 1, 1 << 63, (1 << 62) + 1, (1 << 61) + 3):
                lines.append(f"{c} windows {big_w} p str {hx(t)}")
                lines.append(f"{c} chunks {big_w} p str {hx(t)}")
                lines.append(f"{c} adapt windows {big_w} count 0 p str {hx(t)}")
        # long sequences: the last items of every iterator, jumps into the last word, wide windows
        for n in ([1100] if tier == "quick" else [1100, 4099]):
            t = g.text(c, n)
            sl = offset_slice(g, c, t, 7)
            per_ = max(1, 64 // w)
            lines.append(f"{c} adapt iter 0 last 0 {sl}")
            lines.append(f"{c} adapt reviter 0 nth {n - 1} {sl}")
            lines.append(f"{c} adapt iter 0 nth {n - 1} {sl}")
            lines.append(f"{c} adapt iter 0 count 0 {sl}")
            lines.append(f"{c} adapt windows {per_ + 1} nthnext {n - per_ - 3} {sl}")
            lines.append(f"{c} adapt windows {n - 2} count 0 {sl}")
            lines.append(f"{c} adapt chunks {per_ * 17 + 1} foldafter 0 {sl}")
            lines.append(f"{c} adapt chunks 3 last 0 {sl}")
            lines.append(f"{c} adapt chunks 3 rev {n // 3 - 2} {sl}")
            lines.append(f"{c} adapt iter 1 collectseq {n - 70} {sl}")
        for _ in range(5 if tier == "quick" else 60):
            e, n = rand_slice(g, c, 3, 150)
            lines.append(f"{c} iter {e}")
            lines.append(f"{c} reviter {e}")
            lines.append(f"{c} windows {r.randrange(1, n + 3)} {e}")
            lines.append(f"{c} chunks {r.randrange(1, n + 3)} {e}")
    return lines


STORAGES = [("usize", 64), ("u64", 64), ("u128", 128)]
EQ_PAIRINGS = ["seq_slice", "seq_refslice", "refseq_seq", "seq_refseq", "seq_seq", "slice_slice", "refslice_slice",
               "refslice_refslice", "slice_seq", "refslice_seq", "ne_slice_slice"]


def fitting_ks(w, sbits, tier, r):
    ks = list(range(1, sbits // w + 1))
    if tier == "quick" and len(ks) > 8:
        keep = {1, 2, 3, ks[-1], ks[-2], len(ks) // 2}
        # K's whose last symbol ends at / straddles / starts at a 64-bit word boundary of the storage
        for j in range(1, sbits // 64 + 1):
            keep |= {k for k in (64 * j // w - 1, 64 * j // w, 64 * j // w + 1) if 1 <= k <= ks[-1]}
        keep |= set(r.sample(ks, 3))
        ks = sorted(keep)
    return ks


def variants_of(g, c, t):
    """(label, text) pairs related to t: equal, one symbol changed, proper prefix, proper suffix, empty"""
    r = g.r
    out = [("equal", list(t))]
    if t:
        i = r.randrange(len(t))
        a = [x for x in g.alpha[c] if g.code(c, x) != g.code(c, t[i])]
        if a:
            out.append(("onesym", t[:i] + [r.choice(a)] + t[i + 1:]))
        for i in (0, len(t) - 1):
            a = [x for x in g.alpha[c] if g.code(c, x) != g.code(c, t[i])]
            if a:
                out.append(("edge", t[:i] + [r.choice(a)] + t[i + 1:]))
        out.append(("prefix", t[:-1]))
        out.append(("suffix", t[1:]))
        out.append(("longer", t + g.text(c, 1)))
    out.append(("empty", []))
    return out


def gen_C02(g, tier):
    r = g.r
    lines = []
    for c in CODECS:
        w = g.width[c]
        per = 64 // w
        ns = [0, 1, per - 1, per, per + 1] if tier == "quick" else [0, 1, 2, per - 1, per, per + 1, 2 * per + 1]
        for n in ns:
            t = g.text(c, n)
            leads = [0, 1, per // 2, per - 1] if tier == "quick" else list(range(0, per + 2))
            for lead in leads:
                a = offset_slice(g, c, t, lead)
                lines.append(f"{c} hasheq {a} {offset_slice(g, c, t, r.choice(leads))}")
                lines.append(f"{c} hasheq {a} own {a}")
                for (label, t2) in variants_of(g, c, t):
                    lead2 = r.choice(leads)
                    b = offset_slice(g, c, t2, lead2)
                    prs = EQ_PAIRINGS if tier != "quick" else r.sample(EQ_PAIRINGS, 3)
                    for pr in prs:
                        lines.append(f"{c} eq {pr} {a} {b}")
                    # static arrays (hand-built SeqArray) on either side, compared and hashed through Deref
                    if 1 <= n <= 5 or n in (per - 1, per, per + 1):
                        lines.append(f"{c} eq {r.choice(EQ_PAIRINGS)} arr {a} {b}")
                        lines.append(f"{c} eq {r.choice(EQ_PAIRINGS)} {a} arr {b}")
                        lines.append(f"{c} hasheq arr {a} {b}")
                # equal to its own displayed text and to no other sequence's text
                ct = g.canon_text(c, n)
                sl = offset_slice(g, c, ct, lead)
                lines.append(f"{c} eqstr {hx(ct)} {sl}")
                for (label, t2) in variants_of(g, c, ct)[1:]:
                    lines.append(f"{c} eqstr {hx(t2)} {sl}")
                lines.append(f"{c} eqstr {hx(ct[:-1] + [0x21]) if ct else '21'} {sl}")
                # map lookup by a borrowed slice
                keys = [g.text(c, r.choice([n, n, max(n - 1, 0), n + 1])) for _ in range(3)] + [t]
                r.shuffle(keys)
                ks = " ".join(f"p str {hx(k)}" for k in keys)
                lines.append(f"{c} mapget {len(keys)} {ks} {a}")
                lines.append(f"{c} mapget {len(keys)} {ks} {offset_slice(g, c, g.text(c, n), lead)}")
        # two windows of the SAME parent (same allocation, starts in the same byte / word at different bit offsets)
        for n in ([per + 3, 2 * per + 2] if tier == "quick" else [3, per - 1, per + 3, 2 * per + 2, 3 * per]):
            for _ in range(6 if tier == "quick" else 40):
                t = g.text(c, n)
                if r.random() < 0.5:
                    t = [r.choice(t[:2])] * n  # homopolymer-ish parents make distinct equal windows common
                ln = r.randrange(0, min(n, per) + 1)
                a1 = r.randrange(0, n - ln + 1)
                a2 = min(n - ln, a1 + r.choice([0, 1, 1, 2, 3, per]))
                for pr in ("slice_slice", "refslice_slice", "refslice_refslice", "ne"):
                    lines.append(f"{c} eqwin {pr} {a1} {a1 + ln} {a2} {a2 + ln} p str {hx(t)}")
        # a sequence equals no text that differs only in case (case distinguishes symbols in the masked codecs)
        for _ in range(4 if tier == "quick" else 40):
            n = r.randrange(1, 2 * per)
            ct = g.canon_text(c, n)
            flipped = [b ^ 0x20 if (65 <= b <= 90 or 97 <= b <= 122) else b for b in ct]
            one = list(ct)
            j = r.randrange(n)
            if 65 <= one[j] <= 90 or 97 <= one[j] <= 122:
                one[j] ^= 0x20
            sl = offset_slice(g, c, ct, r.randrange(0, per + 1))
            lines.append(f"{c} eqstr {hx(flipped)} {sl}")
            lines.append(f"{c} eqstr {hx(one)} {sl}")
        # owned values with a history (truncated, drained, rebuilt from raw words, reversed, extended ...) equal,
        # hash like, order like and are found in a map like a sequence freshly built from the same symbols
        for _ in range(40 if tier == "quick" else 600):
            v, n = rand_value(g, c, r.randrange(1, 6), 3 * per)
            lines.append(f"{c} eqfresh {v}")
        for n in (per - 1, per, per + 1, 2 * per + 1):
            t = g.text(c, n + 3)
            lines.append(f"{c} eqfresh trunc {n} p str {hx(t)}")
            lines.append(f"{c} eqfresh remove r {n} {n + 2} p str {hx(t)}")
            lines.append(f"{c} eqfresh fromraw {n} p str {hx(t)}")
            lines.append(f"{c} eq seq_seq trunc {n} p str {hx(t)} p str {hx(t[:n])}")
            lines.append(f"{c} eq refseq_seq remove rf {n} 0 p str {hx(t)} p str {hx(t[:n])}")
        # k-mers: every K that fits, every storage
        for (st, sbits) in STORAGES:
            for K in fitting_ks(w, sbits, tier, r):
                t = g.text(c, K)
                v = g.value(c, t)
                lead = r.randrange(0, per + 1)
                sl = offset_slice(g, c, t, lead)
                lines.append(f"{c} kmer hasheq {K} {st} {v} {sl}")
                lines.append(f"{c} kmer try {K} {st} {sl}")
                for (label, t2) in variants_of(g, c, t):
                    for pr in ("slice", "refslice", "rslice", "rrefslice", "rseq"):
                        lines.append(f"{c} kmer eq {K} {st} {pr} {v} {offset_slice(g, c, t2, r.randrange(0, per + 1))}")
                    if len(t2) == K:
                        lines.append(f"{c} kmer eqk {K} {st} {v} {g.value(c, t2)}")
                        if K * w <= 64:
                            # the static-array pairings (Kmer == SeqArray<A,K,1>, == &SeqArray), array built by hand
                            lines.append(f"{c} kmer eq {K} {st} arr {v} {offset_slice(g, c, t2, r.randrange(0, per + 1))}")
                            lines.append(f"{c} kmer eq {K} {st} refarr {v} p str {hx(t2)}")
                if st == "usize":
                    ct = g.canon_text(c, K)
                    cv = g.value(c, ct)
                    lines.append(f"{c} kmer eqstr {K} {st} {cv} {hx(ct)}")
                    lines.append(f"{c} kmer eqstr {K} {st} {cv} {hx(ct[:-1])}")
                    lines.append(f"{c} kmer eqstr {K} {st} {v} {hx(ct)}")
                    lines.append(f"{c} kmer eqseq {K} {st} {v} p str {hx(t)}")
                    lines.append(f"{c} kmer eqseq {K} {st} {v} own {sl}")
                    lines.append(f"{c} kmer eqseq {K} {st} {v} p str {hx(t[:-1])}")
                    lines.append(f"{c} kmer eqseq {K} {st} {v} p str {hx(t + g.text(c, per + 1))}")
                    lines.append(f"{c} kmer eqseq {K} {st} {v} p str {hx(g.text(c, 2 * per + 3))}")
                    lines.append(f"{c} kmer eq {K} {st} slice {v} p str {hx(t + g.text(c, 2 * per))}")
                    long = g.text(c, K + r.randrange(0, 6))
                    lines.append(f"{c} kmer iterhash {K} {st} {offset_slice(g, c, long, lead)}")
    return lines


def gen_C04(g, tier):
    r = g.r
    lines = []
    for c in CODECS:
        w = g.width[c]
        per = 64 // w
        for n in sorted({0, 1, 2, per - 1, per, per + 1, 8 // w, 8 // w + 1}):
            t = g.text(c, n)
            leads = [0, 1, per - 1] if tier == "quick" else range(0, per + 2)
            for lead in leads:
                sl = offset_slice(g, c, t, lead)
                lines.append(f"{c} usize {sl}")
                lines.append(f"{c} u8 {sl}")
                lines.append(f"{c} usizev own {sl}")
                if n >= 1:
                    # owned sequences that were shrunk in place: the integer is taken from the live symbols only
                    junk = g.text(c, r.randrange(1, 4))
                    lines.append(f"{c} usizev trunc {n} p str {hx(t + junk)}")
                    lines.append(f"{c} usizev remove rf {n} 0 p str {hx(t + junk)}")
                    lines.append(f"{c} usizev fromraw {n} p str {hx(t + junk)}")
                    lines.append(f"{c} usizev push 0 trunc {max(n - 1, 0)} p str {hx(t + junk)}")
                    lines.append(f"{c} usize trunc {n} p str {hx(t + junk)}")
        # k-mer <-> integer, display of integers below 2^(K*w)
        for K in fitting_ks(w, 64, tier, r):
            top = 1 << (K * w)
            vals = list(range(0, min(16, top))) + [top - 1, top // 2] + [r.randrange(top) for _ in range(3 if tier == "quick" else 20)]
            for v in vals:
                lines.append(f"{c} kmer int {K} usize {v}")
                lines.append(f"{c} kmer fromint {K} usize {v}")
                lines.append(f"{c} kmer fromint64 {K} usize {v}")
                lines.append(f"{c} kmer deref {K} usize {v}")
            t = g.text(c, K)
            lines.append(f"{c} kmer show {K} usize {g.value(c, t)}")
            lines.append(f"{c} usize p str {hx(t)}")
        # raw image of owned values however produced; rebuilding with every count
        for _ in range(10 if tier == "quick" else 150):
            v, n = rand_value(g, c, r.randrange(0, 5), 3 * per)
            lines.append(f"{c} raw {v}")
            lines.append(f"{c} show fromraw {n} {v}")
        for n in (per + 2, 2 * per + 3):
            t = g.text(c, n)
            for k in sorted({1, 2, 3, per // 2 + 1, per - 1, per}):
                if k <= n:
                    for e in (f"remove r 0 {k}", f"remove rt 0 {k}", f"remove r 1 {k}", f"trunc {n - k}", f"remove rf {n - k} 0"):
                        v = f"{e} p str {hx(t)}"
                        m = n - k if not e.startswith("remove r 1") else n - (k - 1)
                        lines.append(f"{c} raw {v}")
                        lines.append(f"{c} show fromraw {m} {v}")
        for n in ([per + 1, 2 * per] if tier == "quick" else [0, 1, per - 1, per, per + 1, 2 * per, 2 * per + 3]):
            t = g.text(c, n)
            words = (n * w + 63) // 64
            for m in range(0, (words * 64) // w + 3):
                lines.append(f"{c} show fromraw {m} p str {hx(t)}")
            lines.append(f"{c} show fromraw {min((1 << 64) // w, (1 << 64) - 1)} p str {hx(t)}")
            lines.append(f"{c} show fromraw {(1 << 64) - 1} p str {hx(t)}")
        for _ in range(5 if tier == "quick" else 60):
            k = r.randrange(0, 4)
            ws = [r.randrange(1 << 64) for _ in range(k)]
            m = r.randrange(0, (k * 64) // w + 3)
            lines.append(f"{c} show fromwords {m} {k} {' '.join(map(str, ws))}".rstrip())
            lines.append(f"{c} raw fromwords {m} {k} {' '.join(map(str, ws))}".rstrip())
        # a sequence rebuilt from a raw image that holds MORE symbols than requested (bits above the length in the last
        # word) is the parsed prefix: equal in every owned pairing, same hash, same order, usable as a map key
        for n in sorted({1, 2, per - 1, per, per + 1}):
            t = g.text(c, n + 3)
            for m in sorted({0, 1, n - 1, n}):
                if 0 <= m <= n:
                    lines.append(f"{c} eqfresh fromraw {m} p str {hx(t)}")
                    lines.append(f"{c} eq seq_seq fromraw {m} p str {hx(t)} p str {hx(t[:m])}")
                    lines.append(f"{c} eq refseq_seq p str {hx(t[:m])} fromraw {m} p str {hx(t)}")
        # word geometry: copies (to_owned and everything built on it) of windows whose bit length is a whole number of
        # words but which start off a word boundary: the copy's raw image starts at bit 0
        import math
        pw = math.lcm(64, w) // w
        for n in (pw, 2 * pw):
            t = g.text(c, n)
            for lead in ((1, pw - 1) if tier == "quick" else (1, 2, pw // 2, pw - 1, pw + 1)):
                sl = offset_slice(g, c, t, lead)
                lines.append(f"{c} raw own {sl}")
                lines.append(f"{c} show fromraw {n} own {sl}")
                lines.append(f"{c} raw storev {sl}")
                lines.append(f"{c} raw and {sl} {sl}")
                lines.append(f"{c} raw push 0 own sl r {lead} {lead} p str {hx(t)}")
        # the by-value integer of an owned sequence whose bit vector starts mid-word (From<&BitSlice>): content may span two words
        for off in ((1, 60, 63) if tier == "quick" else range(1, 64)):
            for n in sorted({1, per - 1, per}):
                if n >= 1:
                    lines.append(f"{c} usizev frombits {off} p str {hx(g.text(c, n))}")
                    lines.append(f"{c} usize frombits {off} p str {hx(g.text(c, n))}")
    # `From<Vec<usize>> for Seq<text::Dna>`: the words are the sequence's storage, eight 8-bit symbols per word
    for _ in range(8 if tier == "quick" else 80):
        k = r.randrange(0, 4)
        ws = [g.value("text", g.text("text", 8)) if r.random() < 0.7 else r.randrange(1 << 64) for _ in range(k)]
        wtxt = " ".join(map(str, ws))
        for q in ("show", "raw", "showv"):
            lines.append(f"text {q} vecwords {k} {wtxt}".rstrip())
        if k == 1:
            lines.append(f"text usizev vecwords {k} {wtxt}")
        lines.append(f"text show push 1 vecwords {k} {wtxt}".rstrip())
        lines.append(f"text eqfresh vecwords {k} {wtxt}".rstrip())
    lines.append("dna show vecwords 1 5")
    return lines


def gen_C08(g, tier):
    r = g.r
    lines = []
    for c in CODECS:
        w = g.width[c]
        per = 64 // w
        for K in fitting_ks(w, 64, tier, r):
            for n in sorted({0, K - 1, K, K + 1, K + 4}):
                t = g.text(c, n)
                leads = [0, r.randrange(1, per + 1)] if tier == "quick" else [0, 1, per - 1, per, r.randrange(0, per + 1)]
                for lead in leads:
                    sl = offset_slice(g, c, t, lead)
                    lines.append(f"{c} kmers {K} {sl}")
                    lines.append(f"{c} windows {K} {sl}")
                    lines.append(f"{c} adapt kmers {K} {r.choice(['nth', 'skip', 'stepby', 'last', 'count', 'nthnext'])} {r.choice([0, 1, 2, 3])} {sl}")
                    lines.append(f"{c} adapt kmers {K} hint {r.choice([0, 0, 1, 2])} {sl}")
                    lines.append(f"{c} adapt kmers {K} {r.choice(['lastafter', 'countafter', 'foldafter', 'nthhuge'])} {r.choice([0, 1, 2, n])} {sl}")
                    lines.append(f"{c} adapt kmers {K} {r.choice(['rev', 'len'])} {r.choice([0, 0, 1, 2])} {sl}")
                    lines.append(f"{c} kmer try {K} usize {sl}")
                    lines.append(f"{c} show kd {K} {sl}")
                    lines.append(f"{c} show ofkmer {K} {sl}")
                    if n == K:
                        lines.append(f"{c} eqfresh ofkmer {K} {sl}")
                        lines.append(f"{c} raw ofkmer {K} {sl}")
                        lines.append(f"{c} show push 1 ofkmer {K} {sl}")
                        lines.append(f"{c} show append ofkmer {K} {sl} {sl}")
                        lines.append(f"{c} eq seq_slice ofkmer {K} {sl} {sl}")
                lines.append(f"{c} kmer tryseq {K} usize p str {hx(t)}")
                if n == K:
                    lines.append(f"{c} kmer tryseq {K} usize trunc {K} p str {hx(t + g.text(c, 3))}")
                    lines.append(f"{c} kmer tryseq {K} usize remove r 0 2 p str {hx(g.text(c, 2) + t)}")
                    lines.append(f"{c} kmer tryseq {K} usize frombits {r.randrange(1, 64)} p str {hx(t)}")
                    lines.append(f"{c} kmer tryseq {K} usize own {offset_slice(g, c, t, r.randrange(1, per + 1))}")
                lines.append(f"{c} kmer unsafefrom {K} usize p str {hx(t)}")
            ct = g.canon_text(c, K)
            v = g.value(c, ct)
            lines.append(f"{c} kmer show {K} usize {v}")
            lines.append(f"{c} kmer deref {K} usize {v}")
            lines.append(f"{c} kmer toseq {K} usize {v}")
            lines.append(f"{c} kmer len {K} usize {v}")
        for (st, sbits) in STORAGES:
            for K in fitting_ks(w, sbits, tier, r):
                t = g.text(c, K)
                for n2, t2 in ((K, t), (K - 1, t[:-1]), (K + 1, t + g.text(c, 1))):
                    lines.append(f"{c} kmer try {K} {st} {offset_slice(g, c, t2, r.randrange(0, per + 1))}")
                    lines.append(f"{c} kmer fromstr {K} {st} {hx(t2)}")
                bad = t[:]
                bad[r.randrange(K)] = r.choice(bad_bytes(g, c, True))
                lines.append(f"{c} kmer fromstr {K} {st} {hx(bad)}")
                lines.append(f"{c} kmer show {K} {st} {g.value(c, g.canon_text(c, K))}")
            # K one past what fits must be refused by both sides
            lines.append(f"{c} kmer show {sbits // w + 1} {st} 0")
        # k-mers of content stored under alternative codes are its windows bit for bit (external and internal iteration)
        if alt_codes(g, c):
            for K in fitting_ks(w, 64, tier, r):
                for _ in range(1 if tier == "quick" else 6):
                    n = r.randrange(K, K + 8)
                    av = alt_value(g, c, n)
                    lines.append(f"{c} kmers {K} {av}")
                    lines.append(f"{c} windows {K} {av}")
                    for ad in ("foldafter", "lastafter", "countafter", "nth", "last", "skip"):
                        lines.append(f"{c} adapt kmers {K} {ad} {r.choice([0, 1, 2])} {av}")
                    lines.append(f"{c} kmer try {K} usize sl r 0 {K} {av}")
                    lines.append(f"{c} show ofkmer {K} sl r 0 {K} {av}")
    return lines


def kmer_samples(g, c, K, st_bits, tier):
    r = g.r
    w = g.width[c]
    codes = g.info[c]["items"]
    top = 1 << (K * w)
    if K * w <= (8 if tier == "quick" else 12):
        # all canonical k-mers
        import itertools
        return [sum(cd << (i * w) for i, cd in enumerate(cs)) for cs in itertools.product(codes, repeat=K)][: 5000]
    out = []
    lo, hi = min(codes), max(codes)
    for pat in ([lo] * K, [hi] * K, [lo] * (K - 1) + [hi], [hi] + [lo] * (K - 1), [codes[i % len(codes)] for i in range(K)]):
        out.append(sum(cd << (i * w) for i, cd in enumerate(pat)))
    for _ in range(4 if tier == "quick" else 40):
        out.append(sum(r.choice(codes) << (i * w) for i in range(K)))
    return out


def gen_C09(g, tier):
    r = g.r
    lines = []
    rots = [0, 1, 2, 3, 7, 65535, 65536, 65537, (1 << 32) - 1]
    for c in CODECS:
        w = g.width[c]
        nitems = len(g.info[c]["items"])
        for (st, sbits) in STORAGES:
            for K in fitting_ks(w, sbits, tier, r):
                vals = kmer_samples(g, c, K, sbits, tier)
                if len(vals) > 300 and st != "usize":
                    vals = r.sample(vals, 60)
                for v in vals:
                    for n in (r.sample(rots, 2) + [K, 2 * K, r.randrange(0, 3 * K + 1)]):
                        lines.append(f"{c} kmer rotl {K} {st} {v} {n}")
                        lines.append(f"{c} kmer rotr {K} {st} {v} {n}")
                    for i in (range(nitems) if nitems <= 5 else r.sample(range(nitems), 3)):
                        lines.append(f"{c} kmer pushl {K} {st} {v} {i}")
                        lines.append(f"{c} kmer pushr {K} {st} {v} {i}")
                    if st == "usize":
                        lines.append(f"{c} kmer rev {K} {st} {v}")
                        lines.append(f"{c} kmer revmut {K} {st} {v}")
                        lines.append(f"{c} kmer toseq {K} {st} {v}")
                        if c == "dna":
                            for op in ("comp", "revcomp", "compmut", "revcompmut", "canon"):
                                lines.append(f"{c} kmer {op} {K} {st} {v}")
        # the equivalent sequence operations on the same symbols (for the model-level comparison in the theorems)
        for K in fitting_ks(w, 64, tier, r)[:6]:
            t = g.text(c, K)
            lines.append(f"{c} show rev p str {hx(t)}")
            lines.append(f"{c} kmer rev {K} usize {g.value(c, t)}")
    return lines


def gen_C10(g, tier):
    r = g.r
    lines = []
    ordc = [c for c in CODECS if g.info[c]["has_ord"]]
    for c in ordc:
        w = g.width[c]
        codes = g.info[c]["items"]
        per = 64 // w
        import itertools
        for K in (1, 2, 3):
            if K * w > 64:
                continue
            allk = [sum(cd << (i * w) for i, cd in enumerate(cs)) for cs in itertools.product(codes, repeat=K)]
            if len(allk) > 70:
                allk = r.sample(allk, 70 if tier != "quick" else 40)
            for a in allk:
                for b in allk:
                    if tier == "quick" and r.random() < 0.5 and a != b:
                        continue
                    lines.append(f"{c} kmer cmp {K} usize {a} {b}")
        # k-mers decoded from integers order like the integers (every fitting K, incl. the K that fills the word)
        for K in fitting_ks(w, 64, tier, r):
            top = 1 << (K * w)
            for _ in range(3 if tier == "quick" else 12):
                a_, b_ = r.randrange(top), r.randrange(top)
                lines.append(f"{c} kmer cmpint {K} usize {a_} {b_}")
            lines.append(f"{c} kmer cmpint {K} usize {top - 1} {top // 2}")
            lines.append(f"{c} kmer cmpint {K} usize 1 {top - 1}")
        for (st, sbits) in STORAGES:
            for K in fitting_ks(w, sbits, tier, r):
                for _ in range(3 if tier == "quick" else 20):
                    ta, tb = g.text(c, K), g.text(c, K)
                    if r.random() < 0.4:
                        i = r.randrange(K)
                        tb = ta[:i] + [r.choice(g.alpha[c])] + ta[i + 1:]
                    lines.append(f"{c} kmer cmp {K} {st} {g.value(c, ta)} {g.value(c, tb)}")
                    if st == "usize":
                        # owned sequences with the same content order the same way
                        lines.append(f"{c} cmp p str {hx(ta)} p str {hx(tb)}")
        for _ in range(20 if tier == "quick" else 300):
            n = r.randrange(0, 3 * per)
            ta = g.text(c, n)
            tb = g.text(c, n)
            if n and r.random() < 0.5:
                i = r.randrange(n)
                tb = ta[:i] + [r.choice(g.alpha[c])] + ta[i + 1:]
            lines.append(f"{c} cmp p str {hx(ta)} own {offset_slice(g, c, tb, r.randrange(0, per + 1))}")
            lines.append(f"{c} cmp p str {hx(ta)} p str {hx(g.text(c, r.randrange(0, 2 * per)))}")
        for _ in range(20 if tier == "quick" else 300):
            v, n = rand_value(g, c, r.randrange(1, 5), 3 * per)
            lines.append(f"{c} eqfresh {v}")
            lines.append(f"{c} cmp {v} p str {hx(g.text(c, n))}")
        # equal lengths of whole storage words, differing in exactly one symbol of the first / last / a middle word
        import math
        pw = math.lcm(64, w) // w
        for n in (pw, 2 * pw, 3 * pw):
            ta = g.text(c, n)
            for i in sorted({0, pw - 1, n - pw, n - 1, r.randrange(n)}):
                alt = [b for b in g.alpha[c] if g.code(c, b) != g.code(c, ta[i])]
                tb = ta[:i] + [r.choice(alt)] + ta[i + 1:]
                lines.append(f"{c} cmp p str {hx(ta)} p str {hx(tb)}")
                lines.append(f"{c} cmp p str {hx(tb)} own {offset_slice(g, c, ta, 1)}")
        for n in (per - 1, per, per + 1):
            t = g.text(c, n + 2)
            lines.append(f"{c} cmp trunc {n} p str {hx(t)} p str {hx(t[:n])}")
            lines.append(f"{c} cmp trunc {n} p str {hx(t)} p str {hx(g.text(c, n))}")
        for K in fitting_ks(w, 64, tier, r):
            for _ in range(2 if tier == "quick" else 10):
                n = r.randrange(K, K + 12)
                sl_ = offset_slice(g, c, g.text(c, n), r.randrange(0, per + 1))
                lines.append(f"{c} kmer minmax {K} usize {sl_}")
                lines.append(f"{c} kmer minafter {K} usize {r.choice([0, 1, 2, 3, n - K, n - K + 1, n])} {sl_}")
                lines.append(f"{c} kmer minnth {K} usize {r.choice([0, 1, 2, 3, n - K, n - K + 1, n])} {sl_}")
        # windows of content stored under alternative codes keep their packed value (minimisers must be real windows)
        if alt_codes(g, c):
            for K in fitting_ks(w, 64, tier, r):
                for _ in range(2 if tier == "quick" else 10):
                    n = r.randrange(K, K + 10)
                    av = alt_value(g, c, n)
                    lines.append(f"{c} kmer minmax {K} usize {av}")
                    lines.append(f"{c} kmer minafter {K} usize {r.choice([0, 1, 2])} {av}")
                    lines.append(f"{c} kmer minnth {K} usize {r.choice([0, 1, 2])} {av}")
                    lines.append(f"{c} kmers {K} {av}")
                    lines.append(f"{c} cmp {av} {alt_value(g, c, n)}")
    # codecs without Ord must be refused by both sides
    lines.append("iupac cmp p str 41 p str 43")
    lines.append("amino kmer cmp 2 usize 1 2")
    return lines


def iupac_char(g, code):
    return g.info["iupac"]["to_char"][code]


def gen_C12(g, tier):
    r = g.r
    lines = []
    c = "iupac"
    per = 16
    codes = list(range(16))
    chars = [iupac_char(g, x) for x in codes]
    # all 256 symbol pairs, embedded at independent offsets
    for a in codes:
        for b in codes:
            la, lb = r.randrange(0, per + 1), r.randrange(0, per + 1)
            sa = offset_slice(g, c, [chars[a]], la)
            sb = offset_slice(g, c, [chars[b]], lb)
            lines.append(f"{c} show and {sa} {sb}")
            lines.append(f"{c} show or {sa} {sb}")
            lines.append(f"{c} contains slice {sa} {sb}")
            if tier != "quick" or r.random() < 0.25:
                lines.append(f"{c} show bitand own {sa} own {sb}")
                lines.append(f"{c} show bitor own {sa} own {sb}")
                lines.append(f"{c} contains seq {sa} {sb}")
    for _ in range(60 if tier == "quick" else 1500):
        n = r.choice([0, 1, 2, 15, 16, 17, 31, 32, 33, r.randrange(0, 80)])
        ta, tb = g.text(c, n), g.text(c, n)
        if r.random() < 0.4:
            # make tb a sub-pattern of ta position-wise
            tb = [iupac_char(g, g.code(c, x) & r.randrange(16)) for x in ta]
        sa = offset_slice(g, c, ta, r.randrange(0, per + 1))
        sb = offset_slice(g, c, tb, r.randrange(0, per + 1))
        lines.append(f"{c} show and {sa} {sb}")
        lines.append(f"{c} show or {sa} {sb}")
        lines.append(f"{c} show bitand own {sa} own {sb}")
        lines.append(f"{c} show bitor own {sa} own {sb}")
        # borrowed slice (any offset) with a borrowed OWNED sequence on the right: `slice & &seq`, `slice | &seq`
        lines.append(f"{c} show andsv {sa} own {sb}")
        lines.append(f"{c} show orsv {sa} p str {hx(tb)}")
        lines.append(f"{c} contains slice {sa} {sb}")
        lines.append(f"{c} contains seq {sa} {sb}")
        # length mismatches for contains (and for the operators: result keeps the left length)
        m = r.choice([0, max(n - 1, 0), n + 1, n + 3])
        sc = offset_slice(g, c, g.text(c, m), r.randrange(0, per + 1))
        lines.append(f"{c} contains slice {sa} {sc}")
        lines.append(f"{c} contains seq {sc} {sa}")
        lines.append(f"{c} show and {sa} {sc}")
        lines.append(f"{c} show or {sc} {sa}")
        lines.append(f"{c} show tocomp p str {hx(ta)}")
    # a position-wise sub-pattern except at exactly one position (first / last / around each word boundary / random);
    # operands that are all gaps (the empty set everywhere) on either side
    for n in ([1, 16, 17, 33, 40] if tier == "quick" else [1, 2, 15, 16, 17, 31, 32, 33, 40, 48, 65, 80]):
        ta = [iupac_char(g, r.randrange(1, 15)) for _ in range(n)]
        sub = [iupac_char(g, g.code(c, x) & r.randrange(16)) for x in ta]
        sa = offset_slice(g, c, ta, r.randrange(0, per + 1))
        lines.append(f"{c} contains seq {sa} {offset_slice(g, c, sub, r.randrange(0, per + 1))}")
        lines.append(f"{c} contains slice {sa} p str {hx(sub)}")
        for i in sorted({0, n - 1, n // 2, (n // 16) * 16 - 1, (n // 16) * 16, r.randrange(n)}):
            if not 0 <= i < n:
                continue
            outside = [x for x in range(1, 16) if x & ~g.code(c, ta[i]) & 15]
            tb = sub[:i] + [iupac_char(g, r.choice(outside))] + sub[i + 1:]
            sb = offset_slice(g, c, tb, r.randrange(0, per + 1))
            lines.append(f"{c} contains seq {sa} {sb}")
            lines.append(f"{c} contains seq p str {hx(ta)} p str {hx(tb)}")
            lines.append(f"{c} contains slice {sa} {sb}")
            lines.append(f"{c} contains arr {sa} {sb}")
        lines.append(f"{c} contains arr {sa} p str {hx(sub)}")
        lines.append(f"{c} contains arr {sa} p str {hx(sub[:-1])}")
        lines.append(f"{c} contains arr {sa} p str {hx(sub + sub[:1])}")
        gaps = [iupac_char(g, 0)] * n
        for (x, y) in ((ta, gaps), (gaps, ta), (gaps, gaps)):
            sx, sy = offset_slice(g, c, x, r.randrange(0, per + 1)), offset_slice(g, c, y, r.randrange(0, per + 1))
            lines.append(f"{c} show and {sx} {sy}")
            lines.append(f"{c} show or {sx} {sy}")
            lines.append(f"{c} show bitand own {sx} own {sy}")
            lines.append(f"{c} contains seq {sx} {sy}")
            lines.append(f"{c} contains slice {sx} {sy}")
    for _ in range(12 if tier == "quick" else 200):
        na, nb = r.choice([1, 3, 15, 18]), r.choice([1, 5, 16, 33])
        ta, tb = g.text(c, na), g.text(c, nb)
        for bop in ("bitor", "bitand"):
            lines.append(f"{c} eqfresh {bop} p str {hx(ta)} p str {hx(tb)}")
            lines.append(f"{c} eqfresh {bop} p str {hx(tb)} p str {hx(ta)}")
            lines.append(f"{c} raw {bop} p str {hx(ta)} p str {hx(tb)}")
    for _ in range(12 if tier == "quick" else 200):
        n = r.choice([1, 2, 15, 16, 17, 33])
        ta, tb = g.text(c, n), g.text(c, n)
        oa, ob = r.randrange(0, 64), r.randrange(1, 64)
        lines.append(f"{c} show bitand frombits {oa} p str {hx(ta)} frombits {ob} p str {hx(tb)}")
        lines.append(f"{c} show bitor frombits {oa} p str {hx(ta)} frombits {ob} p str {hx(tb)}")
        lines.append(f"{c} show bitor p str {hx(ta)} frombits {ob} p str {hx(tb)}")
        lines.append(f"{c} show and frombits {oa} p str {hx(ta)} frombits {ob} p str {hx(tb)}")
        lines.append(f"{c} contains seq frombits {ob} p str {hx(ta)} p str {hx(tb)}")
    # whole-word lengths for every operand-type combination
    for n in (16, 32, 48):
        ta, tb = g.text(c, n), g.text(c, n)
        for lead in (0, 1, 15):
            sa = offset_slice(g, c, ta, lead)
            lines.append(f"{c} show andsv {sa} p str {hx(tb)}")
            lines.append(f"{c} show orsv {sa} p str {hx(tb)}")
            lines.append(f"{c} show and {sa} {offset_slice(g, c, tb, 1)}")
            lines.append(f"{c} show or {sa} {offset_slice(g, c, tb, 1)}")
    # static literals as operands: the compile-time encoder must produce the runtime codes for every IUPAC letter
    for ch in chars:
        lines.append(f"{c} macro {ch:02x}")
    for _ in range(6 if tier == "quick" else 60):
        lines.append(f"{c} macro {hx([r.choice(chars) for _ in range(r.randrange(1, 40))])}")
    for _ in range(10 if tier == "quick" else 200):
        n = r.randrange(0, 70)
        t = g.text("dna", n)
        lines.append(f"dna conv iupac {offset_slice(g, 'dna', t, r.randrange(0, 33))}")
    for b in "ACGT":
        lines.append(f"dna conv iupac p str {ord(b):02x}")
    return lines


def gen_C13(g, tier):
    r = g.r
    lines = []
    letters = [0x41, 0x43, 0x47, 0x54]
    for v in range(64):
        t = [letters[v & 3], letters[(v >> 2) & 3], letters[(v >> 4) & 3]]
        for lead in range(0, 33):
            if tier == "quick" and lead not in (0, 1, 15, 30, 31, 32) and r.random() < 0.7:
                continue
            lines.append(f"dna toamino {offset_slice(g, 'dna', t, lead)}")
    for n in (0, 1, 2, 4, 5):
        lines.append(f"dna toamino p str {hx(g.text('dna', n))}")
    for n in (0, 1, 2, 3, 4, 5, 6):
        lines.append(f"dna translate {offset_slice(g, 'dna', g.text('dna', n), r.randrange(0, 33))}")
    for _ in range(20 if tier == "quick" else 400):
        n = r.randrange(0, 120)
        sl = offset_slice(g, 'dna', g.text('dna', n), r.randrange(0, 33))
        lines.append(f"dna translate {sl}")
        # the triplet iterators driven through the std adaptors (nth / skip / step_by)
        for ad in ("nth", "skip", "stepby", "nthnext", "foldafter", "lastafter", "countafter", "rev", "len", "last"):
            lines.append(f"dna adapt windows 3 {ad} {r.choice([0, 1, 2, 3, 5, n // 3])} {sl}")
            lines.append(f"dna adapt chunks 3 {ad} {r.choice([0, 1, 2, 3, 5, n // 3])} {sl}")
    return lines


def gen_C14(g, tier):
    r = g.r
    lines = []
    chars = [iupac_char(g, x) for x in range(16)]
    for a in range(16):
        for b in range(16):
            for c3 in range(16):
                t = [chars[a], chars[b], chars[c3]]
                lead = r.randrange(0, 17)
                lines.append(f"iupac trytoamino {offset_slice(g, 'iupac', t, lead)}")
    for n in (0, 1, 2, 4, 5):
        for _ in range(3):
            lines.append(f"iupac trytoamino {offset_slice(g, 'iupac', g.text('iupac', n), r.randrange(0, 17))}")
    for i in range(len(g.info["amino"]["items"])):
        lines.append(f"amino trytocodon {i}")
        lines.append(f"amino tocodon {i}")
    return lines


def gen_C15(g, tier):
    r = g.r
    lines = []
    na = len(g.info["amino"]["items"])
    for c in ("dna", "iupac"):
        per = 64 // g.width[c]
        for _ in range(60 if tier == "quick" else 1200):
            L = r.choice([1, 2, 3, 3, 3, 4])
            nent = r.randrange(0, 9)
            pool = [g.text(c, L) for _ in range(max(1, nent))]
            aminos = [r.randrange(na) for _ in range(r.choice([1, 2, 3, 5]))]
            entries = []
            for _ in range(nent):
                cod = r.choice(pool) if r.random() < 0.8 else g.text(c, r.choice([1, 2, 3, 4]))
                entries.append((cod, r.choice(aminos)))
            qs = []
            for (cod, _a) in entries[:4]:
                qs.append(f"c {offset_slice(g, c, cod, r.randrange(0, per + 1))}")
            for _ in range(3):
                qs.append(f"c {offset_slice(g, c, g.text(c, r.choice([L, L, 1, 2, 3, 4, 0])), r.randrange(0, per + 1))}")
            for a in set(aminos) | {r.randrange(na)}:
                qs.append(f"a {a}")
            ent = " ".join(f"{hx(cod)} {a}" for cod, a in entries)
            lines.append(f"{c} codontable {nent} {ent} {len(qs)} {' '.join(qs)}".replace("  ", " "))
            if entries and r.random() < 0.5:
                # the same table with keys that are owned sequences with a history (shortened in place, rebuilt from raw words, copied from offset slices)
                def hist(cod):
                    k = r.randrange(5)
                    junk = g.text(c, r.randrange(1, 4))
                    if k == 0:
                        return f"trunc {len(cod)} p str {hx(cod + junk)}"
                    if k == 1:
                        return f"remove r 0 {len(junk)} p str {hx(junk + cod)}"
                    if k == 2:
                        return f"fromraw {len(cod)} p str {hx(cod + junk)}"
                    if k == 3:
                        return f"own {offset_slice(g, c, cod, r.randrange(1, per + 1))}"
                    return f"rev rev p str {hx(cod)}"
                entv = " ".join(f"{hist(cod)} {a}" for cod, a in entries)
                lines.append(f"{c} codontablev {nent} {entv} {len(qs)} {' '.join(qs)}".replace("  ", " "))
    return lines


def gen_C19(g, tier):
    r = g.r
    lines = []
    for n in (511, 512, 513, 1100):
        t = g.text("dna", n)
        lines.append(f"dna conv iupac p str {hx(t)}")
        lines.append(f"dna conv text {offset_slice(g, 'dna', t, 5)}")
    for n in (32, 64, 96, 128, 160):
        t = g.text("dna", n)
        lines.append(f"dna conv iupac p str {hx(t)}")
        lines.append(f"dna conv text p str {hx(t)}")
        lines.append(f"dna conv iupac {offset_slice(g, 'dna', t, 7)}")
    for _ in range(30 if tier == "quick" else 500):
        n = r.choice([0, 1, 31, 32, 33, 63, 64, 65, 95, 96, 97, 127, 128, 129, r.randrange(0, 100)])
        t = g.text("dna", n)
        sl = offset_slice(g, "dna", t, r.randrange(0, 33))
        lines.append(f"dna conv iupac {sl}")
        lines.append(f"dna conv text {sl}")
        lines.append(f"dna conv text sl full 0 0 own {sl}")
    # hand-built SeqArray values (public fields): From<&SeqArray> / From<SeqArray> for Seq<B>, same codec and across codecs
    ARR = [1, 2, 3, 4, 5, 8, 10, 11, 12, 13, 15, 16, 17, 21, 31, 32, 33, 48, 63, 64, 65, 96, 128]
    for n in (ARR if tier != "quick" else [1, 5, 31, 32, 33, 64, 65, 96, 128]):
        t = g.text("dna", n)
        for kind in ("ref", "val"):
            lines.append(f"dna convarr iupac {kind} p str {hx(t)}")
            lines.append(f"dna convarr text {kind} {offset_slice(g, 'dna', t, r.randrange(1, 33))}")
    for c in CODECS:
        for n in (ARR if tier != "quick" else r.sample(ARR, 6) + [32, 64]):
            t = g.text(c, n)
            lines.append(f"{c} show fromarr ref p str {hx(t)}")
            lines.append(f"{c} show fromarr val {offset_slice(g, c, t, r.randrange(1, 9))}")
            lines.append(f"{c} show arr p str {hx(t)}")
    for c in CODECS:
        w = g.width[c]
        bads = bad_bytes(g, c, False)
        for _ in range(40 if tier == "quick" else 800):
            n = r.choice([0, 1, 2, 64 // w, 64 // w + 1, r.randrange(0, 60)])
            core = g.text(c, n)
            if n >= 2 and r.random() < 0.35:
                core[r.randrange(1, n - 1) if n > 2 else 1] = r.choice(bads) if n > 2 else core[1]
            if n >= 4 and r.random() < 0.35:
                k = r.randrange(1, n - 2)
                run = r.sample(bads, min(len(bads), r.choice([2, 3])))
                core = core[:k] + run + core[k:]
            pre = [r.choice(bads) for _ in range(r.choice([0, 0, 1, 3, 9]))]
            post = [r.choice(bads) for _ in range(r.choice([0, 0, 1, 4, 11]))]
            lines.append(f"{c} show trim {hx(pre + core + post)}")
        # long inputs (over 1024 bytes) with junk at both ends, at one end, nowhere, and with a refused byte deep inside
        for n in ([1100] if tier == "quick" else [1023, 1024, 1100, 4200]):
            core = g.text(c, n)
            j1 = [r.choice(bads) for _ in range(r.choice([1, 3, 7]))]
            j2 = [r.choice(bads) for _ in range(r.choice([1, 2, 9]))]
            lines.append(f"{c} show trim {hx(j1 + core + j2)}")
            lines.append(f"{c} show trim {hx(j1 + core)}")
            lines.append(f"{c} show trim {hx(core + j2)}")
            lines.append(f"{c} show trim {hx(core)}")
            lines.append(f"{c} show trim {hx(j1 + core[:n - 3] + [r.choice(bads)] + core[n - 3:] + j2)}")
        lines.append(f"{c} show trim -")
        lines.append(f"{c} show trim {hx([r.choice(bads) for _ in range(5)])}")
        for b in range(256):
            if tier != "quick" or b % 3 == 0:
                lines.append(f"{c} show trim {hx([b] + g.text(c, 2) + [b])}")
    return lines


def gen_C20(g, tier):
    r = g.r
    lines = []
    for c in ("mdna", "miupac"):
        w = g.width[c]
        per = 64 // w
        items = g.info[c]["items"]
        chars = [g.info[c]["to_char"][x] for x in items]
        for ch in chars:
            for op in ("mask", "unmask", "tomask", "tounmask"):
                lines.append(f"{c} show {op} p str {ch:02x}")
            lines.append(f"{c} show mask mask p str {ch:02x}")
            lines.append(f"{c} show unmask mask p str {ch:02x}")
            lines.append(f"{c} show unmask unmask p str {ch:02x}")
            lines.append(f"{c} show comp mask p str {ch:02x}")
            lines.append(f"{c} show mask comp p str {ch:02x}")
        # symbol-level forms incl. the copying ones (Maskable::to_mask / to_unmask, Complement::to_comp)
        for b in range(256):
            lines.append(f"{c} sym {b}")
        for n in ([12, 13, 14, 26, 39, 52] if tier == "quick" else list(range(0, 56))):
            t = g.text(c, n)
            base = f"p str {hx(t)}"
            for op in ("mask", "unmask", "tomask", "tounmask"):
                lines.append(f"{c} show {op} {base}")
                lines.append(f"{c} show {op} own {offset_slice(g, c, t, r.randrange(0, per + 2))}")
            lines.append(f"{c} show rev mask {base}")
            lines.append(f"{c} show mask rev {base}")
            lines.append(f"{c} show revcomp mask {base}")
            lines.append(f"{c} show mask revcomp {base}")
            lines.append(f"{c} show unmask mask {base}")
            lines.append(f"{c} show unmask {base}")
        for k in (1, 3, per // 2 + 1, per - 1):
            t = g.text(c, per + 7)
            for op in ("tomask", "tounmask", "mask", "unmask"):
                lines.append(f"{c} show {op} remove r 0 {k} p str {hx(t)}")
                lines.append(f"{c} show {op} clone remove rt 0 {k} p str {hx(t)}")
            lines.append(f"{c} show tounmask tomask remove r 0 {k} p str {hx(t)}")
        for n in ([1023, 1025, 2051] if tier == "quick" else [1023, 1024, 1025, 2047, 2051, 4099]):
            t = g.text(c, n)
            for op in ("tomask", "tounmask", "mask", "unmask"):
                lines.append(f"{c} show {op} p str {hx(t)}")
        for _ in range(10 if tier == "quick" else 200):
            v, n = rand_value(g, c, r.randrange(1, 5), 120)
            for op in ("mask", "unmask", "tomask", "tounmask"):
                lines.append(f"{c} show {op} {v}")
        # owned values whose bit vector starts mid-word (From<&BitSlice>): the copying forms copy the content, not the words
        for off in ((1, 37, 63) if tier == "quick" else range(1, 64, 3)):
            t = g.text(c, r.choice([1, per - 1, per + 2, 2 * per + 1]))
            for op in ("tomask", "tounmask", "mask", "unmask"):
                lines.append(f"{c} show {op} frombits {off} p str {hx(t)}")
            lines.append(f"{c} show tounmask tomask frombits {off} p str {hx(t)}")
            lines.append(f"{c} show clone frombits {off} p str {hx(t)}")
        # content stored under alternative codes (raw constructors / set operations): in-place and copying forms agree
        if alt_codes(g, c):
            for n in sorted({1, 2, per - 1, per, per + 1, 2 * per + 1}):
                for _ in range(1 if tier == "quick" else 6):
                    av = alt_value(g, c, n)
                    for op in ("mask", "unmask", "tomask", "tounmask"):
                        lines.append(f"{c} show {op} {av}")
                        lines.append(f"{c} show {op} {op} {av}")
                    lines.append(f"{c} show tounmask tomask {av}")
                    lines.append(f"{c} show comp tomask {av}")
    lines.append("dna show mask p str 41")
    return lines


def gen_C18(g, tier):
    r = g.r
    lines = []
    for c in CODECS:
        w = g.width[c]
        per = 64 // w
        for n in sorted({0, 1, per - 1, per, per + 1, 2 * per, 2 * per + 1}):
            t = g.text(c, n)
            lines.append(f"{c} serde p str {hx(t)}")
            lines.append(f"{c} serde own {offset_slice(g, c, t, r.randrange(1, per + 1))}")
            lines.append(f"{c} serde rev p str {hx(t)}")
            lines.append(f"{c} serde trunc {max(n - 1, 0)} p str {hx(t)}")
            lines.append(f"{c} serde remove r 0 {min(1, n)} p str {hx(t)}")
            lines.append(f"{c} serde clear p str {hx(t)}")
        for _ in range(15 if tier == "quick" else 300):
            v, n = rand_value(g, c, r.randrange(0, 7), 4 * per)
            lines.append(f"{c} serde {v}")
        for _ in range(6 if tier == "quick" else 100):
            k = r.randrange(1, 4)
            ws = [r.randrange(1 << 64) for _ in range(k)]
            m = r.randrange(0, (k * 64) // w + 1)
            lines.append(f"{c} serdert fromwords {m} {k} {' '.join(map(str, ws))}")
        if c == "iupac":
            # results of the owned / borrowed set operations, operands of equal and unequal lengths
            for _ in range(12 if tier == "quick" else 150):
                na, nb = r.choice([1, 3, per - 1, per + 2]), r.choice([1, 5, per, 2 * per + 1])
                ta, tb = g.text(c, na), g.text(c, nb)
                for bop in ("bitor", "bitand"):
                    lines.append(f"{c} serde {bop} p str {hx(ta)} p str {hx(tb)}")
                    lines.append(f"{c} serdert {bop} p str {hx(tb)} p str {hx(ta)}")
                lines.append(f"{c} serde or p str {hx(ta)} {offset_slice(g, c, tb, r.randrange(0, per))}")
        # owned sequences whose bit vector has a non-zero head (only constructible through From<&BitSlice>), and clones / edits of them
        for off in ([1, 6, 63] if tier == "quick" else range(1, 64)):
            n = r.choice([0, 1, per, per + 1, 2 * per + 1])
            t = g.text(c, n)
            lines.append(f"{c} serdert frombits {off} p str {hx(t)}")
            lines.append(f"{c} serdert clone frombits {off} p str {hx(t)}")
            lines.append(f"{c} serdert push 1 frombits {off} p str {hx(t)}")
            lines.append(f"{c} show frombits {off} p str {hx(t)}")
            lines.append(f"{c} eqfresh frombits {off} p str {hx(t)}")
        for (st, sbits) in STORAGES:
            for K in fitting_ks(w, sbits, tier, r):
                top = 1 << (K * w)
                for v in (0, 1, top - 1, r.randrange(top), g.value(c, g.text(c, K))):
                    lines.append(f"{c} kmer serde {K} {st} {v}")
    return lines


def gen_C16(g, tier):
    r = g.r
    lines = []
    for c, alpha in (("dna", [ord(x) for x in "ACGT"]), ("iupac", [ord(x) for x in "ACGTRYSWKMBDHVN-"])):
        for n in [0, 1, 2, 15, 16, 17, 31, 32, 33, 63, 64, 65, 127, 128, 129, 200] + [r.randrange(0, 300) for _ in range(10 if tier == "quick" else 300)]:
            t = [r.choice(alpha) for _ in range(n)]
            lines.append(f"{c} macro {hx(t)}")
            lines.append(f"{c} show p str {hx(t)}")
            if n:
                pos = r.randrange(n + 1)
                bad = r.choice(list(b"acgtnNUXxZ0 9\n-.*") + [0xc3])
                t2 = t[:pos] + ([bad] if bad != 0xc3 else [0xc3, 0xa9]) + t[pos:]
                lines.append(f"{c} macro {hx(t2)}")
        for b in range(128):
            lines.append(f"{c} macro {b:02x}")
            lines.append(f"{c} macro 41{b:02x}43")
    for n in range(1, 33):
        t = [r.choice([65, 67, 71, 84]) for _ in range(n)]
        lines.append(f"dna kmer fromstr {n} usize {hx(t)}")
    # a k-mer (literal or parsed) equals the sequence of the same text whichever side of `==` it stands on, also when the
    # k-mer fills its storage type exactly
    for (c, st, Ks) in (("dna", "usize", (1, 16, 31, 32)), ("dna", "u64", (32,)), ("dna", "u128", (33, 63, 64)), ("iupac", "usize", (15, 16)), ("iupac", "u128", (17, 32))):
        for K in Ks:
            t = g.text(c, K)
            for pr in ("slice", "refslice", "rslice", "rrefslice", "rseq"):
                lines.append(f"{c} kmer eq {K} {st} {pr} {g.value(c, t)} p str {hx(t)}")
                lines.append(f"{c} kmer eq {K} {st} {pr} {g.value(c, t)} {offset_slice(g, c, t[:-1] + g.text(c, 1), 3)}")
    return lines


def rand_decl(r, kind="wf"):
    """random enum declaration in protocol form; kind: wf | smallwidth | nodisc | nonint | bigdisc"""
    n = r.choice([2, 2, 3, 4, 5, 8, 12, 16, 25, 40]) if r.random() < 0.8 else r.randrange(2, 41)
    hi = r.choice([3, 7, 15, 31, 63, 127, 255, 255])
    n = min(n, hi + 1, 40)
    discs = r.sample(range(hi + 1), n)
    if kind == "wf" and r.random() < 0.15:
        discs[0] = 255 if 255 not in discs else discs[0]
    free = [x for x in range(256) if x not in discs]
    r.shuffle(free)
    letters = list("ABCDEFGHIJKLMNOPQRSTUWXYZ")  # 'V' is reserved for generated names V<i>
    r.shuffle(letters)
    displays = [c for c in range(0x21, 0x7f) if chr(c) not in "'\\\"" and not chr(c).isupper()]
    r.shuffle(displays)
    vs = []
    for i, d in enumerate(discs):
        if i < len(letters) and r.random() < 0.6:
            ident = letters[i] + r.choice(["", "x", "Masked", "1"])
            disp = "-"
        else:
            ident = "V" + str(i)
            disp = str(displays.pop())
        if disp == "-" and r.random() < 0.15:
            disp = str(displays.pop())
        na = r.choice([0, 0, 0, 1, 2, 5]) if free else 0
        alts = [free.pop() for _ in range(min(na, len(free)))]
        fmt = r.choice("dbxu") if not (0x20 < d < 0x7f and chr(d) not in "'\\" and r.random() < 0.2) else "y"
        vs.append([ident, f"{fmt}{d}", disp, alts])
    mx = max(discs)
    minw = max(mx, 0).bit_length()
    bits = "-" if r.random() < 0.4 else str(r.randrange(minw, 9)) if minw <= 8 else "-"
    if kind == "smallwidth" and minw >= 1:
        bits = str(r.randrange(0, minw))
    if kind == "nodisc":
        vs[r.randrange(n)][1] = "-"
    if kind == "nonint":
        vs[r.randrange(n)][1] = r.choice(["f", "t", "n1"])
    if kind == "bigdisc":
        vs[r.randrange(n)][1] = "d" + str(r.choice([256, 300, 1000]))
    toks = [bits, str(n)]
    for ident, disc, disp, alts in vs:
        alt_toks = [r.choice("dbx") + str(a) for a in alts]
        if len(alt_toks) >= 2 and r.random() < 0.5:
            # split the alternatives over several #[alt(..)] attributes
            cut = sorted(r.sample(range(1, len(alt_toks)), r.randrange(1, min(3, len(alt_toks)))))
            parts, prev = [], 0
            for c_ in cut + [len(alt_toks)]:
                parts.append(alt_toks[prev:c_])
                prev = c_
            alt_toks = [x for i, part in enumerate(parts) for x in (["|"] if i else []) + part]
        toks += [ident, disc, disp, str(len(alt_toks))] + alt_toks
    return " ".join(toks)


def gen_C17(g, tier):
    r = g.r
    lines = []
    for _ in range(400 if tier == "quick" else 6000):
        lines.append("dna derive " + rand_decl(r, "wf"))
    for kind in ("smallwidth", "nodisc", "nonint", "bigdisc"):
        for _ in range(40 if tier == "quick" else 400):
            lines.append("dna derive " + rand_decl(r, kind))
    # the documented example of the README and edge widths
    lines.append("dna derive - 2 A d0 - 0 B d1 - 0")
    lines.append("dna derive - 2 A d0 - 0 B d255 - 0")
    lines.append("dna derive 8 2 A d0 - 0 B d255 - 0")
    lines.append("dna derive - 1 A d0 - 0")
    for m in range(256):
        lines.append(f"dna derive - 2 A d0 - 0 B d{m} - 0" if m else "dna derive - 1 A d0 - 0")
    return lines


def gen_C05(g, tier):
    lines = []
    for c in CODECS:
        for b in range(256):
            lines.append(f"{c} sym {b}")
    return lines


def generate(prop, seed, tier, work):
    g = G(seed, work)
    fn = globals().get("gen_" + prop)
    if fn is None:
        return []
    return fn(g, tier)
