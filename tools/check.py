#!/usr/bin/env python3
"""Orchestrator: decides one property on /repo's current working tree.

  python3 tools/check.py Cxx --tier quick|thorough
  python3 tools/check.py Cxx --replay replays/Cxx-....json

Steps (DESIGN.md section 6): prepare (rebuild harness dev+release from the
working tree, extract function graphs, regenerate Lean tables, lake build the
property's theorems + driver, axiom audit) -> correspondence run (harness vs
Lean driver on generated op lines, both profiles) -> implementation-side
oracles -> verdict, replay file, evidence file.
"""
import argparse, fcntl, hashlib, json, os, random, re, subprocess, sys, time
from concurrent.futures import ThreadPoolExecutor

ROOT = os.path.dirname(os.path.dirname(os.path.abspath(__file__)))
sys.path.insert(0, os.path.join(ROOT, "tools"))
WORK = os.path.join(ROOT, ".work")
LEAN = os.path.join(ROOT, "lean")
HARNESS = os.path.join(ROOT, "harness")
TARGET = os.path.join(WORK, "target")
REPO = "/repo"
ENV = dict(os.environ, CARGO_NET_OFFLINE="true", CARGO_TERM_COLOR="never")
ALLOWED_AXIOMS = {"propext", "Classical.choice", "Quot.sound"}

import gen_ops  # noqa: E402
import programs  # noqa: E402
import props as PROPS  # noqa: E402


def sh(cmd, cwd=None, timeout=3600, inp=None):
    p = subprocess.run(cmd, cwd=cwd, env=ENV, input=inp, capture_output=True, text=True, timeout=timeout)
    return p.returncode, p.stdout, p.stderr


class Broken(Exception):
    """a tie or proof obligation no longer checks"""

    def __init__(self, kind, name, detail):
        super().__init__(f"{kind}: {name}")
        self.kind, self.name, self.detail = kind, name, detail


def tree_hash():
    h = hashlib.sha256()
    for base in ("bio-seq/src", "bio-seq-derive/src"):
        for dp, dn, fn in sorted(os.walk(os.path.join(REPO, base))):
            dn.sort()
            for f in sorted(fn):
                p = os.path.join(dp, f)
                h.update(p.encode())
                h.update(open(p, "rb").read())
    for f in ("Cargo.lock", "Cargo.toml", "bio-seq/Cargo.toml", "bio-seq-derive/Cargo.toml"):
        p = os.path.join(REPO, f)
        if os.path.exists(p):
            h.update(open(p, "rb").read())
    return h.hexdigest()[:16]


def self_hash():
    h = hashlib.sha256()
    for base in (os.path.join(HARNESS, "src"), os.path.join(ROOT, "tools")):
        for dp, dn, fn in sorted(os.walk(base)):
            dn.sort()
            for f in sorted(fn):
                if f.endswith((".rs", ".py", ".toml")):
                    h.update(open(os.path.join(dp, f), "rb").read())
    return h.hexdigest()[:16]


def build_harness():
    """cargo build dev + release against the working tree; extract; regenerate Lean tables."""
    os.makedirs(WORK, exist_ok=True)
    lock_src = os.path.join(REPO, "Cargo.lock")
    lock_dst = os.path.join(HARNESS, "Cargo.lock")
    if os.path.exists(lock_src) and (not os.path.exists(lock_dst)):
        open(lock_dst, "wb").write(open(lock_src, "rb").read())
    stamp = os.path.join(WORK, "harness.stamp")
    key = tree_hash() + ":" + self_hash()
    bins = [os.path.join(TARGET, p, "harness") for p in ("debug", "release")]
    if os.path.exists(stamp) and open(stamp).read() == key and all(os.path.exists(b) for b in bins) \
            and all(os.path.exists(os.path.join(WORK, f"extract.{p}.json")) for p in ("debug", "release")):
        return key

    def one(profile):
        cmd = ["cargo", "build", "--offline", "--target-dir", TARGET]
        if profile == "release":
            cmd.append("--release")
        return sh(cmd, cwd=HARNESS, timeout=3000)

    with ThreadPoolExecutor(2) as ex:
        res = list(ex.map(one, ("debug", "release")))
    for (rc, out, err), prof in zip(res, ("debug", "release")):
        if rc != 0:
            raise Broken("extraction", f"harness build ({prof})", err[-4000:])
    for prof, b in zip(("debug", "release"), bins):
        rc, out, err = sh([b, "extract"], timeout=600)
        if rc != 0:
            raise Broken("extraction", f"harness extract ({prof})", err[-4000:])
        open(os.path.join(WORK, f"extract.{prof}.json"), "w").write(out)
    rc, out, err = sh([sys.executable, os.path.join(ROOT, "tools", "gen_lean.py")])
    if rc != 0:
        raise Broken("extraction", "gen_lean", err[-4000:])
    open(stamp, "w").write(key)
    return key


def lake_build(targets):
    rc, out, err = sh(["lake", "build"] + targets, cwd=LEAN, timeout=3000)
    return rc, out + err


def theorem_names(module_file):
    src = open(module_file).read()
    # strip block comments
    src = re.sub(r"/-.*?-/", "", src, flags=re.S)
    names = []
    ns = []
    for line in src.splitlines():
        m = re.match(r"\s*namespace\s+(\S+)", line)
        if m:
            ns.append(m.group(1))
        m = re.match(r"\s*end\s+(\S+)", line)
        if m and ns and ns[-1] == m.group(1):
            ns.pop()
        m = re.match(r"\s*(?:@\[[^\]]*\]\s*)?theorem\s+([^\s:({\[]+)", line)
        if m:
            nm = m.group(1)
            names.append(nm[len("_root_."):] if nm.startswith("_root_.") else ".".join(ns + [nm]))
    return names


def forbidden_tokens(module_file):
    src = open(module_file).read()
    src = re.sub(r"/-.*?-/", "", src, flags=re.S)
    src = re.sub(r"--.*", "", src)
    bad = []
    for tok in ("sorry", "admit", "native_decide", "bv_decide", "implemented_by", "maxHeartbeats 0"):
        if re.search(r"(?<![A-Za-z0-9_.'])" + re.escape(tok) + r"(?![A-Za-z0-9_'])", src):
            bad.append(tok)
    if re.search(r"(?<![A-Za-z0-9_.'])unsafe\s", src):
        bad.append("unsafe")
    if re.search(r"^\s*axiom\s", src, flags=re.M):
        bad.append("axiom")
    return bad


def audit(prop, modules):
    """#print axioms for every theorem of the property's modules."""
    names = []
    for m in modules:
        f = os.path.join(LEAN, m.replace(".", "/") + ".lean")
        names += theorem_names(f)
    imports = "\n".join(f"import {m}" for m in modules)
    body = imports + "\n" + "\n".join(f"#print axioms {n}" for n in names) + "\n"
    os.makedirs(os.path.join(WORK, "audit"), exist_ok=True)
    path = os.path.join(WORK, "audit", f"{prop}.lean")
    key = hashlib.sha256((body + open(os.path.join(WORK, "harness.stamp")).read()).encode()).hexdigest()
    cache = path + ".out"
    olean_mtime = max(os.path.getmtime(os.path.join(LEAN, ".lake/build/lib/lean", m.replace(".", "/") + ".olean")) for m in modules)
    if os.path.exists(cache):
        c = json.load(open(cache))
        if c.get("key") == key and c.get("mtime") == olean_mtime:
            return names, c["axioms"]
    open(path, "w").write(body)
    rc, out, err = sh(["lake", "env", "lean", path], cwd=LEAN, timeout=1200)
    if rc != 0:
        raise Broken("theorem", "axiom audit", (out + err)[-3000:])
    axioms = {}
    for m in re.finditer(r"'(\S+?)' (depends on axioms: \[([^\]]*)\]|does not depend on any axioms)", out.replace("\n", " ")):
        axioms[m.group(1)] = [a.strip() for a in (m.group(3) or "").split(",") if a.strip()]
    json.dump({"key": key, "mtime": olean_mtime, "axioms": axioms}, open(cache, "w"))
    return names, axioms


def prepare(prop):
    """returns dict with proof bookkeeping; raises Broken."""
    cfg = PROPS.PROPS[prop]
    lockf = open(os.path.join(ROOT, ".work.lock"), "w") if os.path.isdir(ROOT) else None
    os.makedirs(WORK, exist_ok=True)
    fcntl.flock(lockf, fcntl.LOCK_EX)
    try:
        build_harness()
        modules = cfg["modules"]
        rc, log = lake_build(modules + ["driver"])
        if rc != 0:
            # which declaration failed?
            m = re.findall(r"error: (\S+\.lean):(\d+):\d+: (.*)", log)
            raise Broken("theorem", "lake build " + " ".join(modules), log[-6000:])
        bad = []
        for mod in modules:
            bad += forbidden_tokens(os.path.join(LEAN, mod.replace(".", "/") + ".lean"))
        if bad:
            raise Broken("theorem", "forbidden tokens", ",".join(bad))
        names, axioms = audit(prop, modules)
        for n in names:
            if n not in axioms:
                raise Broken("theorem", f"axiom audit missing {n}", "")
            extra = set(axioms[n]) - ALLOWED_AXIOMS
            if extra:
                raise Broken("theorem", f"{n} depends on {sorted(extra)}", "")
        if os.environ.get("VERIF_TIER_EFFECTIVE") == "thorough":
            for mod in modules:
                rc, out, err = sh(["lake", "env", "leanchecker", mod], cwd=LEAN, timeout=3000)
                if rc != 0:
                    raise Broken("theorem", f"leanchecker {mod}", (out + err)[-3000:])
        return {"theorems": names, "axioms": sorted({a for n in names for a in axioms[n]})}
    finally:
        fcntl.flock(lockf, fcntl.LOCK_UN)


def _limits():
    # a runaway evaluation (e.g. an iterator that never terminates) must not take the machine down
    import resource
    resource.setrlimit(resource.RLIMIT_AS, (6 << 30, 6 << 30))


def run_bin(cmd, text, timeout=1500):
    try:
        p = subprocess.run(cmd, input=text, capture_output=True, text=True, env=ENV, timeout=timeout, preexec_fn=_limits)
    except subprocess.TimeoutExpired:
        raise Broken("correspondence", " ".join(cmd), f"timed out after {timeout}s (non-terminating evaluation?)")
    if p.returncode != 0:
        raise Broken("correspondence", " ".join(cmd), (p.stderr or "")[-2000:] + f" rc={p.returncode}")
    return p.stdout.split("\n")


def run_impl_robust(cmd, lines, timeout=400):
    """Evaluate op lines on the real code.  When the process dies (abort on allocation failure, stack overflow,
    a signal) or hangs, the shard is bisected so that the offending line is identified and reported on its own
    ("abort" / "hang" as the implementation's output) instead of losing the whole shard."""
    text = "\n".join(lines) + "\n"
    try:
        p = subprocess.run(cmd, input=text, capture_output=True, text=True, env=ENV, timeout=timeout, preexec_fn=_limits)
        if p.returncode == 0:
            return p.stdout.split("\n")
        why = "abort"
    except subprocess.TimeoutExpired:
        why = "hang"
    if len(lines) == 1:
        return [f"{why} (the process evaluating this line {'did not finish' if why == 'hang' else 'died'})"]
    mid = len(lines) // 2
    sub_to = max(20, timeout // 2)
    return run_impl_robust(cmd, lines[:mid], sub_to)[:mid] + run_impl_robust(cmd, lines[mid:], sub_to)[:len(lines) - mid]


def canon(line):
    if line.startswith("bad-op"):
        return "bad-op"
    return line


def run_ops(lines, profiles, shards=14):
    """returns {profile: (impl_out, model_out)}"""
    n = len(lines)
    if n == 0:
        return {p: ([], []) for p in profiles}
    shards = max(1, min(shards, n // 200 + 1))
    size = (n + shards - 1) // shards
    parts = [lines[i:i + size] for i in range(0, n, size)]
    jobs = []
    for p in profiles:
        for idx, part in enumerate(parts):
            text = "\n".join(part) + "\n"
            jobs.append((p, idx, "impl", [os.path.join(TARGET, p, "harness"), "eval"], text))
            jobs.append((p, idx, "model", [os.path.join(LEAN, ".lake/build/bin/driver"), p], text))
    def run_job(j):
        p, idx, side, cmd, text = j
        if side == "model":
            return run_bin(cmd, text)
        return run_impl_robust(cmd, parts[idx])

    with ThreadPoolExecutor(16) as ex:
        outs = list(ex.map(run_job, jobs))
    res = {p: ([], []) for p in profiles}
    for (p, idx, side, _, _), out in zip(jobs, outs):
        out = out[:len(parts[idx])] if len(out) >= len(parts[idx]) else out + ["<missing>"] * (len(parts[idx]) - len(out))
        res[p][0 if side == "impl" else 1].extend(out)
    return res


def eval_one(line, profile):
    # `chunks 0` never terminates in the real code (outside C11, which requires w >= 1): never produce it while shrinking
    if re.search(r"\bchunks(vec)? 0\b", line):
        raise Broken("correspondence", "shrink", "chunks(0) excluded")
    impl = run_impl_robust([os.path.join(TARGET, profile, "harness"), "eval"], [line], timeout=20)[0]
    model = run_bin([os.path.join(LEAN, ".lake/build/bin/driver"), profile], line + "\n", timeout=20)[0]
    return impl, model


def shrink(line, profile, still_bad):
    """token-level delta debugging: shorten hex texts, lower numbers."""
    best = line
    improved = True
    rounds = 0
    while improved and rounds < 40:
        improved = False
        rounds += 1
        toks = best.split()
        for i, t in enumerate(toks):
            cands = []
            if re.fullmatch(r"[0-9a-f]{4,}", t) and len(t) % 2 == 0:
                n = len(t) // 2
                cands += [t[: 2 * (n // 2)], t[2 * (n // 2):], t[2:], t[:-2]]
            elif re.fullmatch(r"\d+", t) and int(t) > 0:
                v = int(t)
                cands += [str(v // 2), str(v - 1)]
            for c in cands:
                if not c or c == t:
                    continue
                trial = " ".join(toks[:i] + [c] + toks[i + 1:])
                try:
                    if still_bad(trial, profile):
                        best = trial
                        improved = True
                        break
                except Broken:
                    pass
            if improved:
                break
    return best


def table_diff():
    """failing-input search for theorems about extracted tables: entries of the function graphs
    that differ from the graphs of the unchanged tree (baseline/, committed)"""
    out = []
    for prof in ("debug", "release"):
        try:
            cur = json.load(open(os.path.join(WORK, f"extract.{prof}.json")))
            base = json.load(open(os.path.join(ROOT, "baseline", f"extract.{prof}.json")))
        except Exception:
            continue

        def walk(a, b, path):
            if len(out) > 40:
                return
            if isinstance(a, dict) and isinstance(b, dict):
                for k in sorted(set(a) | set(b)):
                    walk(a.get(k), b.get(k), path + [k])
            elif isinstance(a, list) and isinstance(b, list) and len(a) == len(b):
                for i, (x, y) in enumerate(zip(a, b)):
                    walk(x, y, path + [i])
            elif a != b:
                out.append(f"WITNESS profile={prof} table={'/'.join(map(str, path))} unchanged-tree={json.dumps(b)[:120]} now={json.dumps(a)[:120]}")
        names = [c.get("name") for c in cur.get("codecs", [])]
        cur2 = dict(cur, codecs={n: c for n, c in zip(names, cur.get("codecs", []))})
        base2 = dict(base, codecs={c.get("name"): c for c in base.get("codecs", [])})
        walk(cur2, base2, [])
    return out


def load_known():
    p = os.path.join(ROOT, "KNOWN_FINDINGS.json")
    if not os.path.exists(p):
        return {"findings": [], "fixed": []}
    return json.load(open(p))


def match_known(prop, line, profile, known):
    for f in known["findings"]:
        if f["property"] != prop:
            continue
        m = f["match"]
        if "profile" in m and m["profile"] != profile:
            continue
        if "line_regex" in m and not re.search(m["line_regex"], line):
            continue
        return f
    return None


def write_replay(prop, rec):
    os.makedirs(os.path.join(ROOT, "replays"), exist_ok=True)
    h = hashlib.sha256(json.dumps(rec, sort_keys=True).encode()).hexdigest()[:10]
    path = os.path.join(ROOT, "replays", f"{prop}-{h}.json")
    json.dump(rec, open(path, "w"), indent=1)
    return path


def nontrivial(line):
    toks = line.split()
    # trivial = operates only on empty texts
    hexes = [t for t in toks if re.fullmatch(r"[0-9a-f]{2,}", t)]
    return len(hexes) > 0 or any(t in ("fromwords", "kmer", "sym", "derive", "macro", "codontable") for t in toks)


def main():
    ap = argparse.ArgumentParser()
    ap.add_argument("prop")
    ap.add_argument("--tier", default=os.environ.get("VERIF_TIER", "quick"))
    ap.add_argument("--replay")
    args = ap.parse_args()
    prop = args.prop
    tier = args.tier if args.tier in ("quick", "thorough") else "quick"
    os.environ["VERIF_TIER_EFFECTIVE"] = tier
    seed = int(os.environ.get("VERIF_SEED", "1"))
    cfg = PROPS.PROPS[prop]
    t0 = time.time()
    known = load_known()
    violations = []  # (replay record)
    known_hits = []
    proof = {"theorems": [], "axioms": []}
    broken = None
    try:
        proof = prepare(prop)
    except Broken as b:
        broken = b

    profiles = ["debug", "release"]
    ev = {"evaluations": 0, "distinct": set(), "dist": {}, "samples": [], "outcomes": {}}
    diffs = []

    if args.replay:
        rec = json.load(open(args.replay))
        line = rec.get("op_line")
        if not line:
            print(f"replay {args.replay}: names a broken obligation, no op line: {rec.get('broken')}")
            sys.exit(1 if broken else 0)
        ok = True
        for p in profiles if rec.get("profile") in (None, "both") else [rec["profile"]]:
            impl, model = eval_one(line, p)
            print(f"[{p}] impl : {impl}\n[{p}] model: {model}")
            if canon(impl) != canon(model):
                ok = False
        if ok:
            print("replay: implementation and model agree now")
            sys.exit(0)
        print(f"VIOLATION property={prop} replay={args.replay}")
        sys.exit(1)

    harness_ok = all(os.path.exists(os.path.join(TARGET, p, "harness")) for p in profiles) and \
        not (broken and broken.kind == "extraction")
    driver_ok = os.path.exists(os.path.join(LEAN, ".lake/build/bin/driver")) and not (broken and "driver" in broken.detail and "Main" in broken.detail)

    # --- Lean-side witness search when a proof obligation broke
    lean_witness = None
    if broken and broken.kind == "theorem" and cfg.get("witness"):
        lake_build(cfg.get("witness_modules", []))
        rc, out, err = sh(["lake", "env", "lean", "--run", os.path.join(LEAN, cfg["witness"])], cwd=LEAN, timeout=1200)
        w = [l for l in out.splitlines() if l.startswith("WITNESS")]
        if w:
            lean_witness = w
    if broken and broken.kind == "theorem" and not lean_witness:
        # generic search: which entries of the extracted function graphs moved (the failing theorem is about those tables)
        w = table_diff()
        if w:
            lean_witness = ["(theorem over the regenerated tables no longer checks; the real code's function graph differs from the unchanged tree at:)"] + w

    lines = []
    if harness_ok and driver_ok:
        try:
            lines = gen_ops.generate(prop, seed, tier, WORK)
            if tier == "thorough":
                # deepen the sampled parts: several independent generator rounds (exhaustive parts de-duplicate)
                seen = set(lines)
                for extra in range(1, cfg.get("thorough_rounds", 8)):
                    for l in gen_ops.generate(prop, seed * 1000 + extra, tier, WORK):
                        if l not in seen:
                            seen.add(l)
                            lines.append(l)
            corpus = os.path.join(ROOT, "corpus", f"{prop}.ops")
            if os.path.exists(corpus):
                lines = [l.strip() for l in open(corpus) if l.strip() and not l.startswith("#")] + lines
            res = run_ops(lines, profiles)
            for p in profiles:
                impl, model = res[p]
                for line, a, b in zip(lines, impl, model):
                    ev["evaluations"] += 1
                    cls = a.split()[0].split(":")[0] if a else "empty"
                    ev["outcomes"][cls] = ev["outcomes"].get(cls, 0) + 1
                    if nontrivial(line):
                        ev["distinct"].add(line)
                    if canon(a) != canon(b):
                        diffs.append((p, line, a, b))
                    elif a.startswith("ok") and "PROPFAIL" in a:
                        diffs.append((p, line, a, "oracle"))
            for l in lines:
                toks = l.split()
                key = toks[0] + ":" + toks[1]
                ev["dist"][key] = ev["dist"].get(key, 0) + 1
            rnd = random.Random(seed)
            ev["samples"] = rnd.sample(lines, min(8, len(lines)))
        except Broken as b:
            broken = broken or b

    # --- program-level correspondence (generated crates compiled with the real proc-macros)
    prog_stats = None
    if cfg.get("programs") and harness_ok and driver_ok:
        try:
            pv, prog_stats = getattr(programs, cfg["programs"])(seed, tier)
            for v in pv[:5]:
                rec = {"property": prop, "tier": tier, "seed": seed, "profile": v.get("profile"), "op_line": None,
                       "program_case": v, "impl_actual": v.get("impl"), "model_actual": v.get("model"),
                       "broken": {"kind": "correspondence", "name": f"{prop} program-level correspondence ({v.get('kind')})"},
                       "found_failing_input": bool(v.get("found", True))}
                violations.append(rec)
        except Exception as e:  # a crash of the program layer is a broken tie, not a pass
            broken = broken or Broken("correspondence", "program-level correspondence crashed", repr(e))

    # --- classify diffs
    reported = set()
    for (p, line, a, b) in diffs:
        kf = match_known(prop, line, p, known)
        if kf:
            if kf["id"] not in [k["id"] for k in known_hits]:
                known_hits.append(kf)
            continue
        sig = (p, line.split()[0], line.split()[1], a.split()[0], b.split()[0])
        if sig in reported or len(violations) >= 5:
            continue
        reported.add(sig)

        def still_bad(trial, prof):
            x, y = eval_one(trial, prof)
            return canon(x) != canon(y) and not x.startswith("bad-op") and not y.startswith("bad-op")

        small = line
        try:
            small = shrink(line, p, still_bad)
            a2, b2 = eval_one(small, p)
        except Exception:
            a2, b2 = a, b
        rec = {"property": prop, "tier": tier, "seed": seed, "profile": p, "op_line": small, "original_line": line,
               "impl_actual": a2, "model_actual": b2,
               "spec_expected": "the model output (the model is proved to satisfy the property's theorems)" if b != "oracle" else "implementation-side oracle failed",
               "broken": {"kind": "correspondence", "name": f"{prop} correspondence ({line.split()[1]})"},
               "found_failing_input": True}
        violations.append(rec)

    # known findings are re-confirmed on every run from their witness lines
    for f in known["findings"]:
        if f["property"] != prop or not (harness_ok and driver_ok):
            continue
        if f["id"] in [k["id"] for k in known_hits]:
            continue
        w = f.get("witness")
        if not w:
            continue
        try:
            still = False
            if f.get("witness_kind") == "impl_expect":
                out = run_bin([os.path.join(TARGET, w["profile"], "harness"), "eval"], w["line"] + "\n")[0]
                still = (out == w["defect_output"])
            if still:
                known_hits.append(f)
        except Broken:
            pass

    out_lines = []
    rc = 0
    for f in known_hits:
        out_lines.append(f"KNOWN-FINDING: property={prop} {f['what']}")
    for rec in violations:
        path = write_replay(prop, rec)
        out_lines.append(f"VIOLATION property={prop} replay={path}" + ("" if rec.get("found_failing_input", True) else " no-failing-input-found"))
        rc = 1
    if broken:
        if violations:
            pass  # already reported with a concrete input
        elif lean_witness:
            rec = {"property": prop, "tier": tier, "seed": seed, "profile": "both", "op_line": None,
                   "witness": lean_witness, "broken": {"kind": broken.kind, "name": broken.name, "detail": broken.detail[-3000:]},
                   "found_failing_input": True}
            path = write_replay(prop, rec)
            out_lines.append(f"VIOLATION property={prop} replay={path}")
            rc = 1
        else:
            rec = {"property": prop, "tier": tier, "seed": seed, "profile": "both", "op_line": None,
                   "broken": {"kind": broken.kind, "name": broken.name, "detail": broken.detail[-3000:]},
                   "found_failing_input": False}
            path = write_replay(prop, rec)
            out_lines.append(f"VIOLATION property={prop} replay={path} no-failing-input-found")
            rc = 1

    # --- evidence
    ntheorems = len(proof["theorems"])
    evidence = {
        "property_id": prop, "tier": tier, "seed": seed, "level": "proof",
        "coverage": {
            "obligations": max(ntheorems, 1) if not broken else max(ntheorems, 1),
            "discharged": ntheorems if not (broken and broken.kind == "theorem") else 0,
            "checker_cmd": f"cd lean && lake build {' '.join(cfg['modules'])} && lake env lean ../.work/audit/{prop}.lean  (#print axioms on every theorem)",
            "trusted_base": ["Lean 4.33 kernel", "axioms: " + ", ".join(proof["axioms"] or ["none"]),
                             "extraction harness + tools/gen_lean.py (tables regenerated from the compiled crate on this run)",
                             "correspondence: harness (real crate, dev+release) vs compiled Lean driver on the op lines counted below",
                             "bitvec / std / serde semantics as modelled (DESIGN.md section 7)"] + cfg.get("trusted", []),
            "theorems": proof["theorems"],
            "evaluations": ev["evaluations"],
            "distinct_nontrivial": len(ev["distinct"]),
            "rule": cfg.get("rule", "op lines from tools/gen_ops.py (bounded-exhaustive scopes + seeded random); a line is non-trivial when it carries a non-empty text / k-mer / table argument; distinct = distinct line text"),
            "samples": ev["samples"] or ["(no op lines: " + (broken.name if broken else "none generated") + ")"],
            "traces_validated_against_impl": ev["evaluations"],
            "profiles": profiles, "outcomes": ev["outcomes"], "distribution": dict(sorted(ev["dist"].items())),
            "disagreements": len(diffs), "known_findings_confirmed": [f["id"] for f in known_hits],
            "exhaustive": bool(cfg.get("exhaustive", False)),
            "explanation": cfg.get("explanation", ""),
            "programs": int((prog_stats or {}).get("programs", 0)),
            "program_layer": prog_stats,
        },
        "assumptions": cfg.get("assumptions", []),
        "wall_s": round(time.time() - t0, 2),
        "violations": len([l for l in out_lines if l.startswith("VIOLATION")]),
    }
    os.makedirs(os.path.join(ROOT, "evidence"), exist_ok=True)
    json.dump(evidence, open(os.path.join(ROOT, "evidence", f"{prop}.json"), "w"), indent=1)
    for l in out_lines:
        print(l)
    print(f"{prop} {tier}: theorems={ntheorems} lines={len(lines)} evaluations={ev['evaluations']} diffs={len(diffs)} "
          f"known={len(known_hits)} wall={evidence['wall_s']}s" + (f" BROKEN[{broken.kind}] {broken.name}" if broken else ""))
    if broken and rc == 1 and not violations:
        sys.stdout.write(broken.detail[-1500:] + "\n")
    sys.exit(rc)


if __name__ == "__main__":
    main()
