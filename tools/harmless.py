#!/usr/bin/env python3
"""Self-validation helper (not used by the registered checks): false-alarm control.
Applies behaviour-preserving rewrites (produced by independent sub-agents) one at a time in a scratch
lane and runs every quick check of the lane's copy of /verif; any VIOLATION is a false alarm to analyse.

   harmless.py --lane /tmp/lane_1 --out /tmp/sweep/harm_1.jsonl  a.diff b.diff ..."""
import argparse, json, os, subprocess, sys, time

ap = argparse.ArgumentParser()
ap.add_argument("--lane", required=True)
ap.add_argument("--out", required=True)
ap.add_argument("diffs", nargs="+")
a = ap.parse_args()
repo, verif = os.path.join(a.lane, "repo"), os.path.join(a.lane, "verif")
props = [c["property_id"] for c in json.load(open(os.path.join(verif, "MANIFEST.json")))["checks"]]
env = dict(os.environ, CARGO_NET_OFFLINE="true")
for d in a.diffs:
    t0 = time.time()
    subprocess.run(["git", "-C", repo, "checkout", "-q", "--", "."])
    r = subprocess.run(["git", "-C", repo, "apply", os.path.abspath(d)], capture_output=True, text=True)
    rec = {"diff": d}
    if r.returncode != 0:
        rec["status"] = "does-not-apply"
    else:
        t = subprocess.run(["cargo", "test", "--workspace", "--offline", "--no-fail-fast"], cwd=repo, env=env, capture_output=True, text=True)
        t2 = subprocess.run(["cargo", "test", "-p", "bio-seq", "--features", "translation,extra_codecs,serde", "--offline", "--no-fail-fast"],
                            cwd=repo, env=env, capture_output=True, text=True)
        rec["tests_ok"] = t.returncode == 0 and t2.returncode == 0
        alarms = {}
        for p in props:
            o = subprocess.run([sys.executable, os.path.join(verif, "tools", "check.py"), p, "--tier", "quick"], cwd=verif, env=env,
                               capture_output=True, text=True)
            if o.returncode != 0:
                v = [l for l in o.stdout.splitlines() if l.startswith("VIOLATION")]
                detail = ""
                for l in v[:1]:
                    path = l.split("replay=")[1].split()[0]
                    if os.path.exists(path):
                        rj = json.load(open(path))
                        detail = json.dumps({k: rj.get(k) for k in ("profile", "op_line", "impl_actual", "model_actual", "witness", "program_case", "broken")})[:900]
                alarms[p] = {"violations": v[:2], "detail": detail, "tail": o.stdout[-600:]}
        rec["alarms"] = alarms
        rec["status"] = "ALARM" if alarms else "quiet"
    rec["secs"] = round(time.time() - t0, 1)
    open(a.out, "a").write(json.dumps(rec) + "\n")
    print(d, rec["status"], list(rec.get("alarms", {}).keys()), rec["secs"], flush=True)
subprocess.run(["git", "-C", repo, "checkout", "-q", "--", "."])
