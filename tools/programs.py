"""Program-level correspondence (DESIGN.md 5.5) for C16 (literal macros) and C17 (derive):
generated crates compiled against /repo's working tree with the real proc-macros, in both
build profiles, compared with the Lean model's answers for the same literals / declarations;
plus compile-fail crates where every marked line must be rejected by rustc and no other."""
import json, os, random, re, subprocess

ROOT = os.path.dirname(os.path.dirname(os.path.abspath(__file__)))
WORK = os.path.join(ROOT, ".work")
TARGET = os.path.join(WORK, "target")
DRIVER = os.path.join(ROOT, "lean", ".lake", "build", "bin", "driver")
ENV = dict(os.environ, CARGO_NET_OFFLINE="true", CARGO_TERM_COLOR="never")

HELPERS = r'''
#![allow(dead_code, unused_imports, non_camel_case_types, unreachable_patterns)]
use bio_seq::prelude::*;
use std::hash::{Hash, Hasher};
#[derive(Default)]
struct Rec(String);
impl Hasher for Rec {
    fn finish(&self) -> u64 { 0 }
    fn write(&mut self, bytes: &[u8]) { self.0.push_str(&format!("{{{}}}", hx(bytes))); }
    fn write_u8(&mut self, i: u8) { match i { 0 => self.0.push('0'), 1 => self.0.push('1'), _ => self.0.push_str(&format!("[{i}]")) } }
    fn write_usize(&mut self, i: usize) { self.0.push_str(&format!("|{i}|")); }
}
fn hash<T: Hash + ?Sized>(x: &T) -> String { let mut r = Rec::default(); x.hash(&mut r); if r.0.is_empty() { "-".into() } else { r.0 } }
fn hx(b: &[u8]) -> String { if b.is_empty() { "-".into() } else { b.iter().map(|x| format!("{x:02x}")).collect() } }
fn content<A: Codec>(s: &SeqSlice<A>) -> String {
    if s.len() == 0 { return "-".into(); }
    (0..s.len()).map(|i| format!("{:02x}", usize::try_from(&s[i]).unwrap_or(0xfff))).collect()
}
fn emit<A: Codec>(i: usize, s: &SeqSlice<A>, text: &str) {
    let rt = Seq::<A>::from_str(text);
    let eq = match &rt {
        Ok(r) => format!("{}", s == r.as_ref() && r == s && hash(s) == hash(r.as_ref()) && s.to_string() == r.to_string() && s.len() == r.len()),
        Err(_) => "noparse".into(),
    };
    println!("{i} {} {} {} {eq}", s.len(), content(s), hx(s.to_string().as_bytes()));
}
'''

CARGO = '''[package]
name = "{name}"
version = "0.0.0"
edition = "2021"

[workspace]

[dependencies]
bio-seq = {{ path = "/repo/bio-seq", features = ["translation", "extra_codecs"] }}

[profile.dev]
debug = false

[profile.release]
opt-level = 1
debug = false
'''


def sh(cmd, cwd=None, timeout=3000, inp=None):
    p = subprocess.run(cmd, cwd=cwd, env=ENV, input=inp, capture_output=True, text=True, timeout=timeout)
    return p.returncode, p.stdout, p.stderr


def rust_str(cps):
    out = []
    for c in cps:
        if 0x20 <= c < 0x7f and chr(c) not in '"\\':
            out.append(chr(c))
        else:
            out.append("\\u{%x}" % c)
    return '"' + "".join(out) + '"'


def utf8_hex(cps):
    b = "".join(chr(c) for c in cps).encode("utf-8")
    return "-" if not b else b.hex()


def write_crate(name, main_rs):
    d = os.path.join(WORK, "progs", name)
    os.makedirs(os.path.join(d, "src"), exist_ok=True)
    os.makedirs(os.path.join(d, ".cargo"), exist_ok=True)
    open(os.path.join(d, "Cargo.toml"), "w").write(CARGO.format(name=name))
    open(os.path.join(d, ".cargo", "config.toml"), "w").write("[net]\noffline = true\n")
    lock = os.path.join(ROOT, "harness", "Cargo.lock")
    if os.path.exists(lock):
        open(os.path.join(d, "Cargo.lock"), "wb").write(open(lock, "rb").read())
    path = os.path.join(d, "src", "main.rs")
    if not os.path.exists(path) or open(path).read() != main_rs:
        open(path, "w").write(main_rs)
    return d


def build_run(d, name, profile):
    cmd = ["cargo", "build", "--offline", "--target-dir", TARGET]
    if profile == "release":
        cmd.append("--release")
    rc, out, err = sh(cmd, cwd=d)
    if rc != 0:
        return None, err
    rc, out, err = sh([os.path.join(TARGET, profile, name)])
    return out, err


def build_errors(d, profile):
    """returns (set of source lines of src/main.rs carrying an error, raw stderr)"""
    cmd = ["cargo", "build", "--offline", "--target-dir", TARGET, "--message-format=json"]
    if profile == "release":
        cmd.append("--release")
    rc, out, err = sh(cmd, cwd=d)
    lines = set()
    other = []
    for l in out.splitlines():
        try:
            m = json.loads(l)
        except Exception:
            continue
        if m.get("reason") != "compiler-message":
            continue
        msg = m["message"]
        if msg.get("level") != "error":
            continue

        def collect(sp):
            got = False
            if sp.get("file_name", "").endswith("src/main.rs"):
                lines.add(sp["line_start"])
                got = True
            e = sp.get("expansion")
            while e:
                s2 = e.get("span")
                if s2 and s2.get("file_name", "").endswith("src/main.rs"):
                    lines.add(s2["line_start"])
                    got = True
                e = s2.get("expansion") if s2 else None
            return got
        any_ = False
        for sp in msg.get("spans", []):
            any_ = collect(sp) or any_
        if not any_ and "aborting due to" not in msg.get("message", "") and "could not compile" not in msg.get("message", ""):
            other.append(msg.get("message", "")[:200])
    return lines, other, rc


def driver(profile, lines):
    p = subprocess.run([DRIVER, profile], input="\n".join(lines) + "\n", capture_output=True, text=True, env=ENV, timeout=600)
    return p.stdout.split("\n")[:len(lines)]


# ---------------------------------------------------------------------------------------------
# C16


def c16_literals(seed, tier):
    r = random.Random(seed)
    dna = [ord(c) for c in "ACGT"]
    iupac = [ord(c) for c in "ACGTRYSWKMBDHVN-"]
    lits = []  # (kind, codepoints)
    lens = [0, 1, 2, 15, 16, 17, 31, 32, 33, 63, 64, 65, 127, 128, 129, 200, 257]
    if tier != "quick":
        lens += list(range(3, 15)) + [r.randrange(130, 400) for _ in range(10)]
    for n in lens:
        lits.append(("dna", [r.choice(dna) for _ in range(n)]))
        lits.append(("iupac", [r.choice(iupac) for _ in range(n)]))
    lits.append(("iupac", [ord(c) for c in "ACGTRYSWKMBDHVN-X"]))  # 'X' is in the macro's alphabet only
    for n in ([1, 2, 5, 16, 31, 32] if tier == "quick" else range(1, 33)):
        lits.append(("kmer:usize", [r.choice(dna) for _ in range(n)]))
    for n in ([1, 32, 33, 64] if tier == "quick" else [1, 7, 32, 33, 48, 63, 64]):
        lits.append(("kmer:u128", [r.choice(dna) for _ in range(n)]))
    lits.append(("kmer:u64", [r.choice(dna) for _ in range(9)]))
    return lits


def c16_invalid(seed, tier):
    r = random.Random(seed + 7)
    dna = [ord(c) for c in "ACGT"]
    iupac = [ord(c) for c in "ACGTRYSWKMBDHVN"]
    # non-ASCII characters, including ones whose code point ends in the byte of a valid symbol (U+0141 = 0x100 + 'A', ...)
    wide = [0xe9, 0x3b1, 0x1f9ec] + [0x100 + ord(c) for c in "ACGTN"] + [0x200 + ord("G"), 0x1f400 + ord("T"), 0x2000 + ord("C"), 0x100 + ord("-")]
    bad_dna = [ord(c) for c in "acgtNUXRY-.0123456789 \t\n*"] + wide
    bad_iupac = [ord(c) for c in "acgtnUEZ.0123456789 \t\n*"] + wide
    out = []
    for kind, alpha, bad in (("dna", dna, bad_dna), ("iupac", iupac, bad_iupac)):
        for b in bad:
            n = r.choice([0, 1, 5, 31, 32, 33, 64])
            t = [r.choice(alpha) for _ in range(n)]
            pos = r.choice([0, n, r.randrange(n + 1)])
            out.append((kind, t[:pos] + [b] + t[pos:]))
    for b in (ord("a"), ord("N"), 0xe9, 0x100 + ord("G"), 0x100 + ord("A")):
        out.append(("kmer:usize", [ord("A"), b, ord("C")]))
        out.append(("kmer:usize", [ord("A"), ord("C"), ord("G"), ord("T"), ord("A"), ord("C"), b]))
    return out


def lit_expr(kind, cps):
    s = rust_str(cps)
    if kind == "dna":
        return f"dna!({s})"
    if kind == "iupac":
        return f"iupac!({s})"
    st = kind.split(":")[1]
    return f"kmer!({s})" if st == "usize" else f"kmer!({s}, {st})"


def c16(seed, tier):
    """returns (violations, stats)"""
    viol = []
    stats = {"programs": 0, "literals": 0, "rejected_literals": 0, "samples": []}
    lits = c16_literals(seed, tier)
    body = [HELPERS, "fn emitk<const K: usize, S: bio_seq::kmer::KmerStorage + std::fmt::Display>(i: usize, k: Kmer<Dna, K, S>, text: &str) { let rt = Kmer::<Dna, K, S>::from_str(text).unwrap(); println!(\"{i} {} {} {}\", k.bs, hx(k.to_string().as_bytes()), k == rt && hash(&k) == hash(&rt)); }", "fn main() {"]
    for i, (kind, cps) in enumerate(lits):
        if kind in ("dna", "iupac"):
            body.append(f"    emit({i}, {lit_expr(kind, cps)}, {rust_str(cps)});")
        else:
            body.append(f"    emitk({i}, {lit_expr(kind, cps)}, {rust_str(cps)});")
    body.append("}")
    d = write_crate("c16_valid", "\n".join(body) + "\n")
    ops = []
    for kind, cps in lits:
        if kind in ("dna", "iupac"):
            ops.append(f"{kind} macroshow {utf8_hex(cps)}")
        else:
            ops.append(f"dna macrokmer {kind.split(':')[1]} {utf8_hex(cps)}")
    for prof in ("debug", "release"):
        out, err = build_run(d, "c16_valid", prof)
        stats["programs"] += 1
        if out is None:
            viol.append({"kind": "program-build", "profile": prof, "detail": err[-3000:], "found": False,
                         "name": "generated crate of valid dna!/iupac!/kmer! literals no longer compiles"})
            continue
        got = {}
        for l in out.splitlines():
            parts = l.split(" ", 1)
            if parts[0].isdigit():
                got[int(parts[0])] = parts[1] if len(parts) > 1 else ""
        model = driver(prof, ops)
        for i, ((kind, cps), m) in enumerate(zip(lits, model)):
            stats["literals"] += 1
            g = got.get(i)
            if g is None:
                viol.append({"kind": "literal-missing", "profile": prof, "literal": lit_expr(kind, cps), "found": True, "impl": None, "model": m})
                continue
            if kind in ("dna", "iupac"):
                val, eq = g.rsplit(" ", 1)
                if "ok " + val != m.rsplit(" ", 1)[0]:
                    viol.append({"kind": "literal-value", "profile": prof, "literal": lit_expr(kind, cps), "impl": val, "model": m, "found": True})
                elif eq == "false":
                    viol.append({"kind": "literal-ne-runtime", "profile": prof, "literal": lit_expr(kind, cps), "impl": g, "model": m, "found": True})
            else:
                val, eq = g.rsplit(" ", 1)
                if "ok " + val != m.rsplit(" ", 1)[0]:
                    viol.append({"kind": "kmer-literal-value", "profile": prof, "literal": lit_expr(kind, cps), "impl": g, "model": m, "found": True})
                elif eq != "true":
                    viol.append({"kind": "kmer-literal-ne-runtime", "profile": prof, "literal": lit_expr(kind, cps), "impl": g, "model": m, "found": True})
            if False:
                if "ok " + g != m:
                    viol.append({"kind": "kmer-literal-value", "profile": prof, "literal": lit_expr(kind, cps), "impl": g, "model": m, "found": True})
    stats["samples"] = [lit_expr(k, c) for k, c in lits[:3]]
    # --- compile-fail layer: one literal per line; the model decides which must be rejected
    inv = c16_invalid(seed, tier) + [(k, c) for k, c in lits if k in ("dna", "iupac")][:6]
    ops = []
    for kind, cps in inv:
        base = "dna" if kind.startswith("kmer") else kind
        ops.append(f"{base} macroshow {utf8_hex(cps)}")
    model = driver("debug", ops)
    src = ["#![allow(unused)]", "use bio_seq::prelude::*;", "fn main() {"]
    expect = {}
    for (kind, cps), m in zip(inv, model):
        src.append(f"    let _ = {lit_expr(kind, cps)};")
        expect[len(src)] = (m.strip() == "ok macroerr", lit_expr(kind, cps))
    src.append("}")
    d = write_crate("c16_fail", "\n".join(src) + "\n")
    for prof in ("debug", "release"):
        errs, other, rc = build_errors(d, prof)
        stats["programs"] += 1
        for line, (must_fail, lit) in expect.items():
            stats["rejected_literals"] += 1 if must_fail else 0
            if must_fail and line not in errs:
                viol.append({"kind": "invalid-literal-compiles", "profile": prof, "literal": lit, "found": True,
                             "impl": "no compile error on this line", "model": "macro error"})
            if not must_fail and line in errs:
                viol.append({"kind": "valid-literal-rejected", "profile": prof, "literal": lit, "found": True,
                             "impl": "compile error", "model": "accepted"})
    stats["samples"] += [v[1] for v in list(expect.values())[:3]]
    return viol, stats


# ---------------------------------------------------------------------------------------------
# C17

DUMP = r'''
use bio_seq::codec::Codec as CodecTrait;
fn dump<E: CodecTrait + std::panic::RefUnwindSafe + 'static>(i: usize) {
    std::panic::set_hook(Box::new(|_| {}));
    let hex = |o: Option<E>| match o { Some(s) => format!("{:02x}", s.to_bits()), None => "--".to_string() };
    let tfb: String = (0..=255u8).map(|b| hex(E::try_from_bits(b))).collect();
    let tfa: String = (0..=255u8).map(|b| hex(E::try_from_ascii(b))).collect();
    let ufb: String = (0..=255u8).map(|b| match std::panic::catch_unwind(move || E::unsafe_from_bits(b)) { Ok(s) => format!("{:02x}", s.to_bits()), Err(_) => "--".to_string() }).collect();
    let ufa: String = (0..=255u8).map(|b| match std::panic::catch_unwind(move || E::unsafe_from_ascii(b)) { Ok(s) => format!("{:02x}", s.to_bits()), Err(_) => "--".to_string() }).collect();
    let items: String = E::items().map(|s| format!("{:02x}", s.to_bits())).collect();
    let chars: Vec<String> = E::items().map(|s| format!("{:02x}:{:02x}", s.to_bits(), s.to_char() as u32)).collect();
    // sequences over the derived codec obey the round-trip law
    let text: String = E::items().chain(E::items()).chain(E::items()).map(|s| s.to_char()).collect();
    let rt = match Seq::<E>::try_from(text.as_str()) {
        Ok(s) => s.to_string() == text && s.len() == text.chars().count() && E::items().chain(E::items()).chain(E::items()).zip(s.iter()).all(|(a, b)| a == b)
            // positional access written on the owned value and on a slice of it agrees with iteration (symbols of derived
            // widths 3, 5, 6, 7 straddle storage words)
            && (0..s.len()).all(|i| s.get(i) == Some(s.nth(i)) && s.iter().nth(i) == Some(s.nth(i)) && s[..].get(i) == s.get(i) && (&s).nth(i) == s[i..].nth(0))
            && s.get(s.len()).is_none() && s.rev_iter().count() == s.len() && s.clone() == s,
        Err(_) => false,
    };
    println!("{i} w={} items={items} tfb={tfb} tfa={tfa} chars={} |{}|{}|{rt}", E::BITS, chars.join(","), ufb == tfb, ufa == tfa);
}
'''


def harness(profile, lines):
    p = subprocess.run([os.path.join(TARGET, profile, "harness"), "eval"], input="\n".join(lines) + "\n", capture_output=True, text=True, env=ENV, timeout=600)
    return p.stdout.split("\n")[:len(lines)]


def c17(seed, tier):
    import gen_ops
    r = random.Random(seed + 17)
    viol = []
    stats = {"programs": 0, "declarations": 0, "rejected_declarations": 0, "samples": []}
    decls = [gen_ops.rand_decl(r, "wf") for _ in range(40 if tier == "quick" else 300)]
    decls += ["- 2 A d0 - 0 B d255 - 0", "8 2 A d0 - 0 B d255 - 0", "- 2 A d0 - 0 B d1 - 0"]
    srcs = harness("debug", ["dna declsrc " + d for d in decls])
    body = [HELPERS, DUMP]
    for i, (d, s) in enumerate(zip(decls, srcs)):
        assert s.startswith("ok "), s
        body.append(f"mod m{i} {{ use bio_seq::prelude::*; use bio_seq::codec::Codec; #[derive(Clone, Copy, Debug, PartialEq, Eq, Hash, Codec)] {s[3:]} }}")
    body.append("fn main() {")
    for i in range(len(decls)):
        body.append(f"    dump::<m{i}::E>({i});")
    body.append("}")
    d = write_crate("c17_valid", "\n".join(body) + "\n")
    for prof in ("debug", "release"):
        out, err = build_run(d, "c17_valid", prof)
        stats["programs"] += 1
        if out is None:
            viol.append({"kind": "program-build", "profile": prof, "detail": err[-3000:], "found": False,
                         "name": "generated crate of well-formed derive(Codec) enums no longer compiles"})
            continue
        got = {}
        for l in out.splitlines():
            parts = l.split(" ", 1)
            if parts[0].isdigit():
                got[int(parts[0])] = parts[1]
        model = driver(prof, ["dna derive " + x for x in decls])
        for i, (dd, m) in enumerate(zip(decls, model)):
            stats["declarations"] += 1
            g = got.get(i)
            if g is None:
                viol.append({"kind": "decl-missing", "profile": prof, "declaration": srcs[i][3:], "impl": None, "model": m, "found": True})
                continue
            main, flags = g.split(" |", 1)
            if "ok " + main != m:
                viol.append({"kind": "derived-impl-differs", "profile": prof, "declaration": srcs[i][3:], "impl": main[:400], "model": m[:400], "found": True})
            elif flags != "true|true|true":
                viol.append({"kind": "derived-impl-law", "profile": prof, "declaration": srcs[i][3:], "impl": "unsafe_from_bits==try|unsafe_from_ascii==try|roundtrip = " + flags, "model": "true|true|true", "found": True})
    stats["samples"] = [s[3:] for s in srcs[:2]]
    # --- compile-fail layer
    bad = []
    for kind in ("smallwidth", "nodisc", "nonint", "bigdisc"):
        bad += [gen_ops.rand_decl(r, kind) for _ in range(6 if tier == "quick" else 40)]
    ctrl = [gen_ops.rand_decl(r, "wf") for _ in range(5)]
    alld = bad + ctrl
    srcs2 = harness("debug", ["dna declsrc " + x for x in alld])
    model = driver("debug", ["dna derive " + x for x in alld])
    src = ["#![allow(unused)]", "use bio_seq::prelude::*;", "use bio_seq::codec::Codec;"]
    expect = {}
    for i, (s_, m) in enumerate(zip(srcs2, model)):
        src.append(f"mod m{i} {{ use bio_seq::codec::Codec; #[derive(Clone, Copy, Debug, PartialEq, Eq, Hash, Codec)] {s_[3:]} }}")
        expect[len(src)] = (not m.startswith("ok w="), s_[3:])
    src.append("#[derive(Clone, Copy, Debug, PartialEq, Eq, Hash, Codec)] struct NotAnEnum(u8);")
    expect[len(src)] = (True, "struct NotAnEnum(u8)")
    src.append("fn main() {}")
    d = write_crate("c17_fail", "\n".join(src) + "\n")
    for prof in ("debug", "release"):
        errs, other, rc = build_errors(d, prof)
        stats["programs"] += 1
        for line, (must_fail, text) in expect.items():
            stats["rejected_declarations"] += 1 if must_fail else 0
            if must_fail and line not in errs:
                viol.append({"kind": "malformed-declaration-compiles", "profile": prof, "declaration": text, "found": True,
                             "impl": "no compile error on this line", "model": "derive error"})
            if not must_fail and line in errs:
                viol.append({"kind": "wellformed-declaration-rejected", "profile": prof, "declaration": text, "found": True,
                             "impl": "compile error", "model": "accepted"})
    return viol, stats
