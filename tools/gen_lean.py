#!/usr/bin/env python3
"""Tie 1: turn the function graphs extracted from the compiled crate
(.work/extract.{debug,release}.json) into Lean definitions under
lean/BioSeq/Generated/.  A file is rewritten only when its content changes, so
lake rebuilds only the theorems whose tables moved."""
import json, os, sys

ROOT = os.path.dirname(os.path.dirname(os.path.abspath(__file__)))
GEN = os.path.join(ROOT, "lean", "BioSeq", "Generated")


def opt(v):
    return "none" if isinstance(v, str) else f"some {v}"


def optlist(vs):
    return "[" + ", ".join(opt(v) for v in vs) + "]"


def natlist(vs):
    return "[" + ", ".join(str(v) for v in vs) + "]"


def write_if_changed(path, text):
    old = None
    if os.path.exists(path):
        old = open(path).read()
    if old != text:
        os.makedirs(os.path.dirname(path), exist_ok=True)
        open(path, "w").write(text)
        return True
    return False


HEADER = "/- GENERATED on every run by tools/gen_lean.py from the compiled crate. Do not edit. -/\n"


def tables(ex):
    out = [HEADER, "import BioSeq.Codec\nnamespace BioSeq.Gen\nopen BioSeq\n"]
    names = [c["name"] for c in ex["debug"]["codecs"]]
    for prof in ("debug", "release"):
        for c in ex[prof]["codecs"]:
            n = c["name"]
            P = f"{n}_{prof}"
            out.append(f"def {P}_tryFromBits : List (Option Nat) := {optlist(c['try_from_bits'])}")
            out.append(f"def {P}_unsafeFromBits : List (Option Nat) := {optlist(c['unsafe_from_bits'])}")
            out.append(f"def {P}_tryFromAscii : List (Option Nat) := {optlist(c['try_from_ascii'])}")
            out.append(f"def {P}_unsafeFromAscii : List (Option Nat) := {optlist(c['unsafe_from_ascii'])}")
            out.append(f"def {P}_toChar : List Nat := {natlist(c['to_char'])}")
            out.append(f"def {P}_comp : List (Option Nat) := {optlist(c['comp'])}")
            out.append(f"def {P}_mask : List (Option Nat) := {optlist(c['mask'])}")
            out.append(f"def {P}_unmask : List (Option Nat) := {optlist(c['unmask'])}")
            out.append(f"def {P}_items : List Nat := {natlist(c['items'])}")
            out.append(f"def {P}_symbols : List Nat := {natlist(c['symbols'])}")
            out.append(f"def {P}_dupCodes : List Nat := {natlist(c['dup_codes'])}")
            out.append(
                f"def {P} : Codec := {{ name := \"{n}\", width := {c['bits']}, items := {P}_items, "
                f"tryFromBits := lookup {P}_tryFromBits, unsafeFromBits := lookup {P}_unsafeFromBits, "
                f"tryFromAscii := lookup {P}_tryFromAscii, unsafeFromAscii := lookup {P}_unsafeFromAscii, "
                f"toChar := lookupD {P}_toChar, comp := lookup {P}_comp, mask := lookup {P}_mask, unmask := lookup {P}_unmask }}\n"
            )
    for n in names:
        out.append(f"def {n} : Profile → Codec\n  | .debug => {n}_debug\n  | .release => {n}_release\n")
    out.append("def codecNames : List String := [" + ", ".join(f'"{n}"' for n in names) + "]")
    out.append("def codecByName (name : String) : Option (Profile → Codec) :=")
    for i, n in enumerate(names):
        out.append(f"  {'if' if i == 0 else 'else if'} name = \"{n}\" then some {n}")
    out.append("  else none\n")
    out.append("def symbolsOf (name : String) (p : Profile) : List Nat :=")
    for i, n in enumerate(names):
        out.append(f"  {'if' if i == 0 else 'else if'} name = \"{n}\" then (match p with | .debug => {n}_debug_symbols | .release => {n}_release_symbols)")
    out.append("  else []\n")
    out.append("def allCodecs : List (Profile → Codec) := [" + ", ".join(names) + "]")
    flags = {c["name"]: c for c in ex["debug"]["codecs"]}
    out.append("def compCodecs : List (Profile → Codec) := [" + ", ".join(n for n in names if flags[n]["has_comp"]) + "]")
    out.append("def maskCodecs : List (Profile → Codec) := [" + ", ".join(n for n in names if flags[n]["has_mask"]) + "]")
    out.append("def ordCodecNames : List String := [" + ", ".join(f'"{n}"' for n in names if flags[n]["has_ord"]) + "]")
    # conversions (taken per profile)
    for prof in ("debug", "release"):
        cv = ex[prof]["conv"]
        out.append(f"def conv_{prof}_dnaIupac : List (Nat × Nat) := [" + ", ".join(f"({a}, {b})" for a, b in cv["dna_iupac"]) + "]")
        out.append(f"def conv_{prof}_dnaText : List (Nat × Nat) := [" + ", ".join(f"({a}, {b})" for a, b in cv["dna_text"]) + "]")
        td = []
        for v in cv["text_dna"]:
            td.append("some 999" if v == "panic" else "none" if isinstance(v, str) else f"some {v}")
        out.append(f"def conv_{prof}_textDna : List (Option Nat) := [" + ", ".join(td) + "]")
        te = []
        for v in cv["text_dna"]:
            te.append(v.split(":")[1] if isinstance(v, str) and v.startswith("err:") and v.split(":")[1].isdigit() else "999")
        out.append(f"def conv_{prof}_textDnaErr : List Nat := [" + ", ".join(te) + "]")
    out.append("end BioSeq.Gen\n")
    return "\n".join(out)


def translation(ex):
    out = [HEADER, "namespace BioSeq.Gen\n"]
    amb = {"ambiguous": 1000, "invalid": 1001, "other": 1002, "panic": 1003}
    for prof in ("debug", "release"):
        t = ex[prof]["translation"]
        ta = [v if not isinstance(v, str) else 1003 for v in t["to_amino"]]
        out.append(f"/-- `STANDARD.to_amino` on the codon with packed value `i` (1003 = panic) -/")
        out.append(f"def toAmino_{prof} : List Nat := {natlist(ta)}")
        tta = [v if not isinstance(v, str) else amb[v] for v in t["try_to_amino"]]
        out.append(f"/-- `STANDARD.try_to_amino` on all 16^3 IUPAC codons, first symbol slowest; 1000 ambiguous, 1001 invalid, 1002 other error, 1003 panic -/")
        out.append(f"def tryToAmino_{prof} : List Nat := {natlist(tta)}")
        kinds = {"codon": 0, "ambiguous": 1, "invalidamino": 2, "other": 3, "panic": 4}
        ttc = ", ".join(f"({a}, {kinds[k]}, {natlist(cs)})" for a, k, cs in t["try_to_codon"])
        out.append(f"/-- `STANDARD.try_to_codon` per amino code: (amino, kind, codon) with kind 0 codon, 1 ambiguous, 2 invalid amino, 3 other, 4 panic -/")
        out.append(f"def tryToCodon_{prof} : List (Nat × Nat × List Nat) := [{ttc}]")
        tc = [{"codon": 0, "ambiguous": 1, "other": 3, "panic": 4}[k] for k in t["to_codon"]]
        out.append(f"def toCodon_{prof} : List Nat := {natlist(tc)}")
    out.append("end BioSeq.Gen\n")
    return "\n".join(out)


def rev2bit(ex):
    out = [HEADER, "namespace BioSeq.Gen\n"]
    for prof in ("debug", "release"):
        t = [v if not isinstance(v, str) else 99999 for v in ex[prof]["rev2bit"]]
        out.append(f"/-- `Kmer<Dna,4>::to_rev` on every byte value (= the REV_2BIT table as observed) -/")
        out.append(f"def rev2bit_{prof} : List Nat := {natlist(t)}")
    out.append("end BioSeq.Gen\n")
    return "\n".join(out)


def macro_tables(ex):
    out = [HEADER, "namespace BioSeq.Gen\n"]
    for prof in ("debug", "release"):
        m = ex[prof]["macros"]
        for which in ("dna", "iupac"):
            ent = []
            for v in m[which]:
                if isinstance(v, str):
                    ent.append("none")
                else:
                    n, bits = v
                    ent.append("some (%d, [%s])" % (n, ", ".join("true" if b else "false" for b in bits)))
            out.append(f"/-- `{which}_seq` on the one-character literal with code point `i < 128`: (symbols, bits) or error -/")
            out.append(f"def macro_{which}_{prof} : List (Option (Nat × List Bool)) := [" + ", ".join(ent) + "]")
    out.append("end BioSeq.Gen\n")
    return "\n".join(out)


def width(ex):
    out = [HEADER, "namespace BioSeq.Gen\n"]
    for prof in ("debug", "release"):
        rows = []
        for row in ex[prof]["parse_width"]:
            rows.append(natlist([v if not isinstance(v, str) else (1000 if v == "err" else 1003) for v in row]))
        out.append(f"/-- `parse_width`: row 0 = no #[bits], row n+1 = #[bits(n)]; column = max discriminant; 1000 = error, 1003 = panic -/")
        out.append(f"def parseWidth_{prof} : List (List Nat) := [\n  " + ",\n  ".join(rows) + "]")
    out.append("end BioSeq.Gen\n")
    return "\n".join(out)


def decls(ex):
    d = ex["debug"]["decls"]
    out = [HEADER, "namespace BioSeq.Gen\n",
           "structure VariantDecl where\n  ident : String\n  disc : Option Nat\n  display : Option Nat\n  alts : List Nat\n  deriving Repr, DecidableEq\n",
           "structure EnumDecl where\n  name : String\n  bits : Option Nat\n  variants : List VariantDecl\n  deriving Repr, DecidableEq\n"]
    for key in ("iupac", "amino", "mdna", "miupac"):
        es = d.get(key) or []
        if not es:
            out.append(f"def decl_{key} : Option EnumDecl := none")
            continue
        e = es[0]
        vs = []
        for v in e["variants"]:
            disc = "none" if v["disc"] is None else f"some {v['disc']}"
            disp = "none" if v["display"] is None else f"some {v['display']}"
            alts = natlist([a for a in v["alts"] if a is not None])
            vs.append(f"{{ ident := \"{v['ident']}\", disc := {disc}, display := {disp}, alts := {alts} }}")
        bits = "none" if e["bits"] is None else f"some {e['bits']}"
        out.append(f"def decl_{key} : Option EnumDecl := some {{ name := \"{e['name']}\", bits := {bits}, variants := [\n  " + ",\n  ".join(vs) + "] }")
    rows = d.get("rows")
    if rows is None:
        out.append("def iupacAminoRows : Option (List (String × String)) := none")
    else:
        out.append("def iupacAminoRows : Option (List (String × String)) := some [" + ", ".join(f'("{a}", "{b}")' for a, b in rows) + "]")
    out.append("end BioSeq.Gen\n")
    return "\n".join(out)


def main():
    work = os.path.join(ROOT, ".work")
    ex = {p: json.load(open(os.path.join(work, f"extract.{p}.json"))) for p in ("debug", "release")}
    changed = []
    for name, fn in (("Tables", tables), ("Translation", translation), ("Rev2Bit", rev2bit),
                     ("MacroTables", macro_tables), ("Width", width), ("Decls", decls)):
        if write_if_changed(os.path.join(GEN, name + ".lean"), fn(ex)):
            changed.append(name)
    print("gen_lean: changed:", ",".join(changed) if changed else "none")


if __name__ == "__main__":
    main()
