#!/usr/bin/env python3
"""Self-validation helper: apply a seeded change to /repo, run the registered quick checks,
undo the change, and summarise which checks raised an alarm.
   usage: mutant.py <patch.diff> [Cxx ...]      (default: every claimed property)"""
import json, os, re, subprocess, sys, time

ROOT = os.path.dirname(os.path.dirname(os.path.abspath(__file__)))
REPO = "/repo"
if os.environ.get("VERIF_LANE"):   # triage in a scratch lane (tools/lane.sh): private worktree + private copy of /verif
    REPO = os.path.join(os.environ["VERIF_LANE"], "repo")
    ROOT = os.path.join(os.environ["VERIF_LANE"], "verif")
patch = os.path.abspath(sys.argv[1])
props = sys.argv[2:]
m = json.load(open(os.path.join(ROOT, "MANIFEST.json")))
if not props:
    props = [c["property_id"] for c in m["checks"]]
st = subprocess.run(["git", "-C", REPO, "status", "--porcelain", "--untracked-files=no"], capture_output=True, text=True).stdout.strip()
if st:
    print("refusing: " + REPO + " has local modifications:\n" + st)
    sys.exit(2)
r = subprocess.run(["git", "-C", REPO, "apply", patch], capture_output=True, text=True)
if r.returncode != 0:
    print("patch does not apply:", r.stderr)
    sys.exit(2)
res = {}
# evidence files are rewritten by every run: keep the unchanged tree's records, a mutant run must not replace them
import shutil, tempfile
ev_backup = tempfile.mkdtemp(prefix="evidence-backup-")
for f in os.listdir(os.path.join(ROOT, "evidence")):
    shutil.copy(os.path.join(ROOT, "evidence", f), ev_backup)
try:
    for p in props:
        t0 = time.time()
        out = subprocess.run([sys.executable, os.path.join(ROOT, "tools", "check.py"), p, "--tier", "quick"], cwd=ROOT, capture_output=True, text=True)
        v = [l for l in out.stdout.splitlines() if l.startswith("VIOLATION")]
        res[p] = {"rc": out.returncode, "violations": v, "secs": round(time.time() - t0, 1)}
        print(p, "rc=%d" % out.returncode, v[:2], flush=True)
        for line in v[:1]:
            mm = re.search(r"replay=(\S+)", line)
            if mm and os.path.exists(mm.group(1)):
                rec = json.load(open(mm.group(1)))
                print("     ", json.dumps({k: rec.get(k) for k in ("profile", "op_line", "impl_actual", "model_actual", "witness", "program_case")})[:600])
finally:
    subprocess.run(["git", "-C", REPO, "checkout", "--", "."], check=True)
    for f in os.listdir(ev_backup):
        shutil.copy(os.path.join(ev_backup, f), os.path.join(ROOT, "evidence", f))
    shutil.rmtree(ev_backup, ignore_errors=True)
print(json.dumps({"patch": patch, "detected_by": [p for p in res if res[p]["rc"] != 0]}))
