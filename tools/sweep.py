#!/usr/bin/env python3
"""Self-validation helper (not used by the registered checks): systematic first-order mutation
sweep of jeff-k/bio-seq evaluated in scratch lanes (tools/lane.sh).

  sweep.py list  > /tmp/sweep/mutants.json                 enumerate candidate mutants of the unchanged tree
  sweep.py run --lane /tmp/lane_1 --shard 0/4 --mutants /tmp/sweep/mutants.json --out /tmp/sweep/res_0.jsonl

Per mutant: apply in the lane's worktree -> existing suites (default + feature-gated) must still
compile and pass (otherwise the mutant is uninteresting: the tests already catch it) -> run the
lane's copy of every quick check -> record which raise a VIOLATION.  Survivors of both the
tests and the checks are either equivalent mutants or blind spots and are triaged by hand
(seeded/SWEEP.md)."""
import argparse, json, os, re, subprocess, sys, time

FILES = [
    "bio-seq/src/seq.rs", "bio-seq/src/seq/slice.rs", "bio-seq/src/seq/index.rs", "bio-seq/src/seq/iterators.rs",
    "bio-seq/src/seq/array.rs", "bio-seq/src/kmer.rs", "bio-seq/src/kmer/integral64.rs", "bio-seq/src/codec.rs",
    "bio-seq/src/codec/dna.rs", "bio-seq/src/codec/iupac.rs", "bio-seq/src/codec/amino.rs", "bio-seq/src/codec/text.rs",
    "bio-seq/src/codec/masked/dna.rs", "bio-seq/src/codec/masked/iupac.rs", "bio-seq/src/codec/degenerate/dna.rs",
    "bio-seq/src/translation.rs", "bio-seq/src/translation/standard.rs", "bio-seq/src/lib.rs",
    "bio-seq-derive/src/lib.rs", "bio-seq-derive/src/codec.rs", "bio-seq-derive/src/seqarray.rs",
]

OPS = [
    (r" <= ", " < "), (r" < ", " <= "), (r" >= ", " > "), (r" > ", " >= "),
    (r" == ", " != "), (r" != ", " == "),
    (r" \+ 1\b", ""), (r" - 1\b", ""), (r" \+ ", " - "), (r" - ", " + "), (r" \* ", " + "), (r" / ", " * "), (r" % ", " / "),
    (r" && ", " || "), (r" \|\| ", " && "), (r" << ", " >> "), (r" >> ", " << "),
    (r" & ", " | "), (r" \| ", " & "), (r" \^ ", " | "),
    (r"\bload_le\b", "load_be"), (r"\bstore_le\b", "store_be"), (r"\.rev\(\)", ""), (r"if !", "if "),
    (r"\btrue\b", "false"), (r"\bfalse\b", "true"),
    (r"\b0b11\b", "0b01"), (r"\b0\.\.", "1.."), (r"\.\.=", ".."),
    (r"\bwrapping_sub\b", "wrapping_add"), (r"\bchecked_mul\b", "checked_add"), (r"\bmin\(", "max("), (r"\bmax\(", "min("),
    (r"\brotate_left\b", "rotate_right"), (r"\brotate_right\b", "rotate_left"),
    (r"\bis_some\(\)", "is_none()"), (r"\bis_none\(\)", "is_some()"), (r"\bposition\(", "rposition("), (r"\brposition\(", "position("),
    (r"\.skip\((\w+)\)", r".skip(\1 + 1)"), (r"\.take\((\w+)\)", r".take(\1 + 1)"),
    (r"(\b\d+)usize\b", lambda m: str(int(m.group(1)) + 1) + "usize"),
]


def enumerate_mutants2(repo):
    """second operator family: delete one single-line statement; bump / lower one integer literal"""
    out = []
    for f in FILES:
        p = os.path.join(repo, f)
        if not os.path.exists(p):
            continue
        lines = open(p).read().split("\n")
        in_tests = in_block = False
        depth_fn = 0
        for i, line in enumerate(lines):
            s = line.strip()
            if s.startswith("#[cfg(test)]"):
                in_tests = True
            if in_tests:
                continue
            if "/*" in s and "*/" not in s:
                in_block = True
            if in_block:
                if "*/" in s:
                    in_block = False
                continue
            if s.startswith("//") or s.startswith("#[") or s.startswith("use ") or not s:
                continue
            code = line.split("//")[0]
            indent = len(line) - len(line.lstrip())
            # statement deletion: an indented single-line statement ending in `;` that is not a binding / return / item
            if indent >= 8 and s.endswith(";") and not re.match(r"(let |return|const |type |pub |fn |use |break|continue|\}|\)|\])", s) \
                    and s.count("(") == s.count(")") and s.count("{") == s.count("}"):
                out.append({"file": f, "line": i + 1, "old": line, "new": " " * indent + "// (statement deleted)", "op": "delete-statement"})
            # integer literals (decimal, outside attribute / table rows of pure literals)
            if re.search(r"0b|0x|=> |b'", code) is None:
                for m in re.finditer(r"(?<![\w.])(\d+)(?![\w.])", code):
                    v = int(m.group(1))
                    for nv in ({v + 1, max(v - 1, 0)} - {v}):
                        new = code[:m.start()] + str(nv) + code[m.end():]
                        out.append({"file": f, "line": i + 1, "old": line, "new": new + line[len(code):], "op": f"literal {v}->{nv}"})
    for k, m in enumerate(out):
        m["id"] = 1000 + k
    return out


def enumerate_mutants(repo):
    out = []
    for f in FILES:
        p = os.path.join(repo, f)
        if not os.path.exists(p):
            continue
        lines = open(p).read().split("\n")
        in_tests = False
        in_block = False
        for i, line in enumerate(lines):
            s = line.strip()
            if s.startswith("#[cfg(test)]"):
                in_tests = True
            if in_tests:
                continue
            if "/*" in s and "*/" not in s:
                in_block = True
            if in_block:
                if "*/" in s:
                    in_block = False
                continue
            if s.startswith("//") or s.startswith("#[") or s.startswith("use ") or not s:
                continue
            code = line.split("//")[0]
            for pat, rep in OPS:
                for m in re.finditer(pat, code):
                    new = code[:m.start()] + (m.expand(rep) if isinstance(rep, str) else rep(m)) + code[m.end():]
                    if new == code:
                        continue
                    out.append({"file": f, "line": i + 1, "old": line, "new": new + line[len(code):], "op": pat})
    # stable ids
    for k, m in enumerate(out):
        m["id"] = k
    return out


def sh(cmd, cwd, timeout=1800):
    env = dict(os.environ, CARGO_NET_OFFLINE="true", CARGO_TERM_COLOR="never")
    try:
        p = subprocess.run(cmd, cwd=cwd, env=env, capture_output=True, text=True, timeout=timeout)
        return p.returncode, p.stdout + p.stderr
    except subprocess.TimeoutExpired:
        return 124, "timeout"


def run(args):
    lane = args.lane
    repo = os.path.join(lane, "repo")
    verif = os.path.join(lane, "verif")
    k, n = map(int, args.shard.split("/"))
    muts = [m for m in json.load(open(args.mutants)) if m["id"] % n == k]
    if args.only:
        ids = set(int(x) for x in args.only.split(","))
        muts = [m for m in json.load(open(args.mutants)) if m["id"] in ids]
    done = set()
    if os.path.exists(args.out):
        for l in open(args.out):
            done.add(json.loads(l)["id"])
    props = [c["property_id"] for c in json.load(open(os.path.join(verif, "MANIFEST.json")))["checks"]]
    for m in muts:
        if m["id"] in done:
            continue
        t0 = time.time()
        subprocess.run(["git", "-C", repo, "checkout", "-q", "--", "."])
        p = os.path.join(repo, m["file"])
        lines = open(p).read().split("\n")
        if lines[m["line"] - 1] != m["old"]:
            continue
        lines[m["line"] - 1] = m["new"]
        open(p, "w").write("\n".join(lines))
        rec = dict(m)
        rc, out = sh(["cargo", "test", "--workspace", "--offline", "--no-fail-fast"], repo)
        if rc != 0:
            rec["status"] = "compile-error" if ("error[" in out or "error:" in out) and "test result" not in out else "killed-by-tests"
        else:
            rc2, out2 = sh(["cargo", "test", "-p", "bio-seq", "--features", "translation,extra_codecs,serde", "--offline", "--no-fail-fast"], repo)
            if rc2 != 0:
                rec["status"] = "compile-error" if "test result" not in out2 else "killed-by-feature-tests"
            else:
                det = []
                for pr in props:
                    rc3, out3 = sh([sys.executable, os.path.join(verif, "tools", "check.py"), pr, "--tier", "quick"], verif, timeout=1500)
                    if rc3 != 0:
                        det.append(pr)
                        if not args.all:
                            break
                rec["status"] = "caught" if det else "MISSED"
                rec["detected_by"] = det
        rec["secs"] = round(time.time() - t0, 1)
        with open(args.out, "a") as f:
            f.write(json.dumps(rec) + "\n")
        print(rec["id"], rec["file"], rec["line"], rec["op"], rec["status"], rec.get("detected_by"), rec["secs"], flush=True)
    subprocess.run(["git", "-C", repo, "checkout", "-q", "--", "."])


if __name__ == "__main__":
    ap = argparse.ArgumentParser()
    ap.add_argument("mode", choices=["list", "list2", "run"])
    ap.add_argument("--repo", default="/repo")
    ap.add_argument("--lane")
    ap.add_argument("--shard", default="0/1")
    ap.add_argument("--mutants")
    ap.add_argument("--out")
    ap.add_argument("--only")
    ap.add_argument("--all", action="store_true", help="run every check even after the first detection")
    a = ap.parse_args()
    if a.mode == "list":
        json.dump(enumerate_mutants(a.repo), sys.stdout, indent=0)
    elif a.mode == "list2":
        json.dump(enumerate_mutants2(a.repo), sys.stdout, indent=0)
    else:
        run(a)
