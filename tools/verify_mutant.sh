#!/bin/sh
# confirm a seeded change in its scratch worktree: existing tests pass with it; used before keeping it under seeded/
# usage: verify_mutant.sh <worktree> <patch.diff>
set -e
WT=$1; P=$2
cd "$WT"
git checkout -q -- .
git apply "$P"
echo "== existing test suite with the change"
CARGO_NET_OFFLINE=true cargo test --workspace --offline --no-fail-fast 2>&1 | grep -E "^test result|FAILED|failed|error" | head -20
git checkout -q -- .
echo "== worktree restored"
