"""Per-property configuration of tools/check.py."""

PROPS = {
    "C17": {
        "modules": ["BioSeq.Props.C17"],
        "programs": "c17",
        "rule": "three layers: (i) op lines calling parse_variants/parse_width directly (source inclusion) on random declarations: 2..40 variants, distinct discriminants "
                "in 0..=255 written as decimal/binary/hex/underscored-binary/byte literals, optional alts, optional display characters, optional width minimal..8; malformed: "
                "too-small width, missing / float / string / negative discriminant, discriminant > 255; every max discriminant 0..255; (ii) a generated crate of well-formed enums "
                "compiled with the real derive in dev and release: BITS, try_from_bits/ascii and unsafe_* over all 256 bytes, to_char, to_bits, items, sequence round trip, compared "
                "with the model; (iii) a generated crate of malformed declarations (+ a non-enum), one per line: rustc must reject exactly the modelled lines; distinct = distinct line / declaration",
        "trusted": ["rustc: first-matching-arm semantics of the generated match, proc-macro Err -> compile error; quote! expansion (exercised by the compiled programs)",
                    "the harness's reading of the generated match arms in the direct layer (the compiled layer does not depend on it)"],
    },
    "C13": {
        "modules": ["BioSeq.Props.C13", "BioSeq.Props.Composed"],
        "exhaustive": True,
        "rule": "finite part enumerated completely: all 64 codons through the extracted graph (decided in Lean) and through the line protocol at bit offsets 0..32 "
                "(sampled offsets in quick, all 33 in thorough); wrong-length codons; random DNA sequences translated by windows(3) and chunks(3); distinct = distinct line",
    },
    "C14": {
        "modules": ["BioSeq.Props.C14"],
        "exhaustive": True,
        "rule": "finite domain enumerated completely: all 16^3 IUPAC codons (extracted graph decided in Lean; every codon also run through the line protocol at a random "
                "bit offset), codon lengths 0,1,2,4,5, all 21 amino symbols for try_to_codon / to_codon; distinct = distinct line",
    },
    "C12": {
        "modules": ["BioSeq.Props.C12", "BioSeq.Props.C12Literals"],
        "rule": "IUPAC set-algebra op lines: all 256 symbol pairs for & and | (borrowed operators and owned bit_and/bit_or) and contains (Seq and SeqSlice impls) with the two "
                "operands embedded at independent bit offsets; random equal-length sequences (lengths 0,1,2,15..17,31..33,random) incl. sub-pattern pairs, all kinds of length "
                "mismatch, complement, Dna->Iupac conversion from offset slices; distinct = distinct line",
    },
    "C20": {
        "modules": ["BioSeq.Props.C20", "BioSeq.Props.Invariants"],
        "rule": "masking op lines: every symbol of both masked codecs under mask/unmask/to_mask/to_unmask, twice, composed with comp; sequences whose 5-bit symbols straddle "
                "64-bit words (lengths 12,13,14,26,39,52 in quick, 0..55 thorough) incl. owned copies of offset slices, compositions with rev/revcomp, random values; "
                "symbol tables extracted exhaustively and decided in Lean; distinct = distinct line",
    },
    "C15": {
        "modules": ["BioSeq.Props.C15"],
        "rule": "codon-table op lines: random maps over DNA and IUPAC codons of length 1..4 (duplicate keys, 0/1/2/3+ preimages per amino), queries for keys and non-keys "
                "presented as slices at every offset and for mapped/unmapped aminos; each table is rebuilt 12 times in the harness (fresh RandomState, hence different HashMap "
                "iteration orders) and any order-dependent answer is reported; distinct = distinct line",
    },
    "C19": {
        "modules": ["BioSeq.Props.C19", "BioSeq.Props.C19Array"],
        "rule": "conversion/trim op lines: DNA->IUPAC and DNA->text from slices at every offset and owned copies (lengths 0,1,31..33,random); trim_u8 for 7 codecs on byte strings "
                "with refused bytes at the ends and in the interior, empty, all-bad, every single byte as a delimiter; the symbol maps (incl. text->DNA on all 256 bytes) are extracted "
                "exhaustively and decided in Lean; distinct = distinct line",
    },
    "C16": {
        "modules": ["BioSeq.Props.C16", "BioSeq.Props.Composed"],
        "programs": "c16",
        "rule": "three layers: (i) op lines calling dna_seq/iupac_seq directly (source inclusion) on valid literals of lengths 0..300 incl. word-boundary lengths, "
                "literals with one offending character (lower case, N/U/X, digits, whitespace, multi-byte UTF-8), all 128 single ASCII characters, compared with the model and "
                "with the runtime parser; (ii) a generated crate of valid dna!/iupac!/kmer! literals compiled with the real macros in dev and release, each value compared with the model "
                "and with runtime parsing (length, symbols, hash events, display, ==); (iii) a generated crate of invalid literals, one per line: rustc must report an error on exactly "
                "the lines the model rejects; distinct = distinct line / literal",
        "trusted": ["rustc turning a proc-macro Err into a compile error; quote!/bitarr! expansion (exercised by the compiled programs, not modelled)"],
    },
    "C18": {
        "modules": ["BioSeq.Props.C18"],
        "rule": "serde op lines: owned sequences of 7 codecs from every production route (parsed, copied from offset slices, reversed, truncated (spare capacity), "
                "drained, cleared, random edit histories) and k-mers of every fitting K (sampled in quick) x usize/u64/u128: real bincode and serde_json round trips "
                "(equal, same length/content/hash events/display) and serde_json's order/head/bits/data fields compared with the model's ser; distinct = distinct line",
        "trusted": ["bincode 1.3 and serde_json 1 assumed lossless on the serde data model (third party, not modelled)"],
    },
    "C09": {
        "thorough_rounds": 2,
        "modules": ["BioSeq.Props.C09"],
        "rule": "k-mer operation op lines: rotated_left/right (counts 0,1,2,3,7,65535,65536,65537,2^32-1,K,2K,random), pushl/pushr (every symbol for small alphabets), "
                "rev (to_rev and in-place), and for DNA comp/revcomp/canonical form; exhaustive over all canonical k-mers when K*BITS <= 8 (quick) / 12 (thorough), boundary "
                "patterns + random otherwise; every fitting K (sampled in quick) x usize/u64/u128 x 7 codecs; distinct = distinct line",
    },
    "C02": {
        "thorough_rounds": 4,
        "modules": ["BioSeq.Props.C02", "BioSeq.Props.Invariants"],
        "rule": "equality/hash op lines: 11 Seq/SeqSlice pairings x operands at independent bit offsets x {equal, one symbol changed (random/first/last), "
                "proper prefix, proper suffix, longer, empty}, hash events of slices and owned copies (recording Hasher), == &str against own/other text, "
                "HashMap<Seq,_>::get(&SeqSlice); k-mers of every fitting K (sampled in quick) x usize/u64/u128: hash vs slice hash, ==SeqSlice/&SeqSlice/Seq/&str/Kmer, "
                "iterator k-mers hash like their windows; 7 codecs; non-trivial = carries a non-empty text or a k-mer; distinct = distinct line",
    },
    "C04": {
        "modules": ["BioSeq.Props.C04", "BioSeq.Props.C04Words"],
        "rule": "packing op lines: usize/u8 conversion of slices (0, 1, fitting, one-too-long) at every offset, k-mer<->integer (all small ints, extremes, random) "
                "with display/deref, raw image of owned values from every production route (parsed, collected, copied from offset slice, reversed, complemented, edited, "
                "bit-op'd), from_raw with every count 0..capacity+2 and overflowing counts, from_raw of random word arrays; 7 codecs; distinct = distinct line",
    },
    "C06": {
        "thorough_rounds": 4,
        "modules": ["BioSeq.Props.C06", "BioSeq.Props.Invariants"],
        "rule": "edit op lines: complete enumeration of edit histories of length <= 2 (quick) / 3 (thorough) over 12 ops on short DNA sequences; every edit with "
                "in-bounds arguments on sequences around word boundaries for 7 codecs, argument slices at every reachable bit offset, all 15 RangeBounds forms of remove, "
                "out-of-bounds arguments; random histories (depth <= 12, up to 200 symbols) from every production route incl. clones, with raw image; distinct = distinct line",
    },
    "C08": {
        "modules": ["BioSeq.Props.C08", "BioSeq.Props.C11Std", "BioSeq.Props.Composed"],
        "rule": "k-mer construction/iteration op lines: kmers::<K> vs windows(K) for every fitting K (sampled in quick) x n in {0,K-1,K,K+1,K+4} x offsets, "
                "try_from (slice, owned), from_str (valid / wrong length / bad byte), unsafe_from, Display, Deref, From<Kmer> for Seq, usize/u64/u128; distinct = distinct line",
    },
    "C10": {
        "modules": ["BioSeq.Props.C10", "BioSeq.Props.C10Order", "BioSeq.Props.Composed"],
        "rule": "ordering op lines: all pairs of k-mers for K<=3 (sampled when large), random pairs for every fitting K x 3 storages, cmp/lt/le/partial_cmp consistency, "
                "min/max/sort over a sequence's k-mers, Ord on owned sequences of equal and unequal lengths; the 5 Ord codecs; distinct = distinct line",
    },
    "C07": {
        "modules": ["BioSeq.Props.C07", "BioSeq.Props.Invariants"],
        "rule": "rev/comp/revcomp op lines: in-place, copying-on-owned and copying-on-slice forms, each applied once and twice, comp∘rev vs rev∘comp, "
                "7 codecs for reverse / 5 complementable codecs, lengths {0..3} + word-boundary lengths, slices at every reachable bit offset, "
                "random values from every production route; the harness also checks that the receiver of a copying form is unchanged; "
                "non-trivial = carries a non-empty text; distinct = distinct line",
    },
    "C11": {
        "modules": ["BioSeq.Props.C11", "BioSeq.Props.C11Std"],
        "rule": "iterator op lines: iter/into_iter/rev_iter/windows/chunks/chain (+ IntoIterator for &Seq, Vec<Seq> from chunks) on slices at every "
                "reachable bit offset, lengths 0,1,5, word-boundary lengths, every width 1..n+2 (and 0 for windows), 7 codecs, random nested slices; "
                "non-trivial = carries a non-empty text; distinct = distinct line",
    },
    "C03": {
        "modules": ["BioSeq.Props.C03"],
        "rule": "slicing op lines: 7 codecs (widths 1,2,4,5,6,8) x parent lengths around 1-3 words x every start position reaching every bit offset "
                "(0..64/gcd(w,64)) x ends {a,a+1,a+2,mid,n-1,n} x all 7 Index forms, nth/get at first/mid/last/len/len+1 through offset slices, "
                "out-of-bounds and reversed bounds for every form, random nested re-slicing depth 1..3, indices whose bit offset overflows usize; "
                "non-trivial = carries a non-empty text; distinct = distinct line",
    },
    "C01": {
        "modules": ["BioSeq.Props.C01", "BioSeq.Props.C01Alphabet"],
        "witness": "Witness/WF.lean",
        "witness_modules": ["BioSeq.Checks.WF"],
        "rule": "parse/display op lines: 7 codecs x 9 entry points x lengths {0..3} + word-boundary lengths (64j/w +-2) x valid texts, "
                "texts with one or two refused bytes (start/end/random; lower case, digits, whitespace, neighbours of letters, bytes >= 0x80, "
                "multi-byte UTF-8), all 256 single bytes, long random texts; both build profiles; non-trivial = carries a non-empty text; distinct = distinct line",
    },
    "C05": {
        "modules": ["BioSeq.Props.C05"] + ['BioSeq.Props.C05.DnaDebug', 'BioSeq.Props.C05.DnaRelease', 'BioSeq.Props.C05.TextDebug', 'BioSeq.Props.C05.TextRelease', 'BioSeq.Props.C05.DegDebug', 'BioSeq.Props.C05.DegRelease', 'BioSeq.Props.C05.IupacDebug', 'BioSeq.Props.C05.IupacRelease', 'BioSeq.Props.C05.AminoDebug', 'BioSeq.Props.C05.AminoRelease', 'BioSeq.Props.C05.MdnaDebug', 'BioSeq.Props.C05.MdnaRelease', 'BioSeq.Props.C05.MiupacDebug', 'BioSeq.Props.C05.MiupacRelease'],
        "witness": "Witness/C05.lean",
        "witness_modules": ["BioSeq.Checks.C05"],
        "exhaustive": True,
        "rule": "finite domain: all 256 bytes as ASCII input and as bit patterns x all symbols x 7 codecs x 2 profiles, "
                "extracted from the compiled crate and decided by the Lean kernel over the whole table; op lines additionally "
                "re-evaluate every table entry through the line protocol (sym queries); distinct = distinct line text",
        "trusted": ["Spec/Alphabets.lean (documented alphabets: part of the statement)", "syn-based reader of enum declarations (harness/src/decls.rs)"],
    },
}
