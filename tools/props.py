"""Per-property configuration of tools/check.py."""

PROPS = {
    "C05": {
        "modules": ["BioSeq.Props.C05"],
        "witness": "Witness/C05.lean",
        "witness_modules": ["BioSeq.Checks.C05"],
        "exhaustive": True,
        "rule": "finite domain: all 256 bytes as ASCII input and as bit patterns x all symbols x 7 codecs x 2 profiles, "
                "extracted from the compiled crate and decided by the Lean kernel over the whole table; op lines additionally "
                "re-evaluate every table entry through the line protocol (sym queries); distinct = distinct line text",
        "trusted": ["Spec/Alphabets.lean (documented alphabets: part of the statement)", "syn-based reader of enum declarations (harness/src/decls.rs)"],
    },
}
