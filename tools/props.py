"""Per-property configuration of tools/check.py."""

PROPS = {
    "C07": {
        "modules": ["BioSeq.Props.C07"],
        "rule": "rev/comp/revcomp op lines: in-place, copying-on-owned and copying-on-slice forms, each applied once and twice, comp∘rev vs rev∘comp, "
                "7 codecs for reverse / 5 complementable codecs, lengths {0..3} + word-boundary lengths, slices at every reachable bit offset, "
                "random values from every production route; the harness also checks that the receiver of a copying form is unchanged; "
                "non-trivial = carries a non-empty text; distinct = distinct line",
    },
    "C11": {
        "modules": ["BioSeq.Props.C11"],
        "rule": "iterator op lines: iter/into_iter/rev_iter/windows/chunks/chain (+ IntoIterator for &Seq, Vec<Seq> from chunks) on slices at every "
                "reachable bit offset, lengths 0,1,5, word-boundary lengths, every width 1..n+2 (and 0 for windows), 7 codecs, random nested slices; "
                "non-trivial = carries a non-empty text; distinct = distinct line",
    },
    "C03": {
        "modules": ["BioSeq.Props.C03"],
        "rule": "slicing op lines: 7 codecs (widths 1,2,4,5,6,8) x parent lengths around 1-3 words x every start position reaching every bit offset "
                "(0..64/gcd(w,64)) x ends {a,a+1,a+2,mid,n-1,n} x all 7 Index forms, nth/get at first/mid/last/len/len+1 through offset slices, "
                "out-of-bounds and reversed bounds for every form, random nested re-slicing depth 1..3, indices whose bit offset overflows usize; "
                "non-trivial = carries a non-empty text; distinct = distinct line",
    },
    "C01": {
        "modules": ["BioSeq.Props.C01"],
        "witness": "Witness/WF.lean",
        "witness_modules": ["BioSeq.Checks.WF"],
        "rule": "parse/display op lines: 7 codecs x 9 entry points x lengths {0..3} + word-boundary lengths (64j/w +-2) x valid texts, "
                "texts with one or two refused bytes (start/end/random; lower case, digits, whitespace, neighbours of letters, bytes >= 0x80, "
                "multi-byte UTF-8), all 256 single bytes, long random texts; both build profiles; non-trivial = carries a non-empty text; distinct = distinct line",
    },
    "C05": {
        "modules": ["BioSeq.Props.C05"],
        "witness": "Witness/C05.lean",
        "witness_modules": ["BioSeq.Checks.C05"],
        "exhaustive": True,
        "rule": "finite domain: all 256 bytes as ASCII input and as bit patterns x all symbols x 7 codecs x 2 profiles, "
                "extracted from the compiled crate and decided by the Lean kernel over the whole table; op lines additionally "
                "re-evaluate every table entry through the line protocol (sym queries); distinct = distinct line text",
        "trusted": ["Spec/Alphabets.lean (documented alphabets: part of the statement)", "syn-based reader of enum declarations (harness/src/decls.rs)"],
    },
}
