#!/usr/bin/env python3
"""helper used while building: (re)register a claimed property in MANIFEST.json
   usage: manifest_add.py Cxx "technique" "level text" "level note" """
import json, sys
pid, tech, text, note = sys.argv[1:5]
m = json.load(open('/verif/MANIFEST.json'))
m["checks"] = [c for c in m["checks"] if c["property_id"] != pid]
m["checks"].append({"property_id": pid, "quick_cmd": f"python3 tools/check.py {pid} --tier quick",
                    "thorough_cmd": f"python3 tools/check.py {pid} --tier thorough",
                    "evidence_file": f"/verif/evidence/{pid}.json",
                    "replay_cmd_template": f"python3 tools/check.py {pid} --replay {{path}}", "engine": "lean-model",
                    "level_claimed": {"category": "proof", "text": text, "design_ref": "DESIGN.md section 8"},
                    "level_note": note, "technique": "Lean 4 theorem: " + tech})
m["not_applicable"] = [x for x in m["not_applicable"] if x["property_id"] != pid]
m["checks"].sort(key=lambda c: c["property_id"])
json.dump(m, open('/verif/MANIFEST.json', 'w'), indent=1)
print("claimed", pid, "| total", len(m["checks"]), "| unclaimed", [x["property_id"] for x in m["not_applicable"]])
