#!/usr/bin/env python3
"""Self-validation helper: re-run the registered quick check(s) against kept seeded changes with the
machinery as it is now, and record the outcome in seeded/<id>/meta.json.
   recheck_seeded.py C01g C04g ...          apply to /repo (git apply / checkout), the official way
   VERIF_LANE=/tmp/lane_e recheck_seeded.py ...   the same in a scratch lane (regression sweeps)
   recheck_seeded.py --all-props C01d       run every quick check, not only the aimed-at property's"""
import json, os, subprocess, sys
ROOT = os.path.dirname(os.path.dirname(os.path.abspath(__file__)))
args = [a for a in sys.argv[1:] if not a.startswith("--")]
allp = "--all-props" in sys.argv
lane = os.environ.get("VERIF_LANE")
head = subprocess.run(["git", "-C", ROOT, "rev-parse", "--short", "HEAD"], capture_output=True, text=True).stdout.strip()
for sid in args:
    d = os.path.join(ROOT, "seeded", sid)
    meta = json.load(open(os.path.join(d, "meta.json")))
    prop = meta["breaks_property"]
    extra = [p for p in meta.get("detected_by_quick_checks", []) if p != prop]
    cmd = [sys.executable, os.path.join(ROOT, "tools", "mutant.py"), os.path.join(d, "patch.diff")] + ([] if allp else [prop] + extra)
    m = subprocess.run(cmd, capture_output=True, text=True)
    last = [l for l in m.stdout.splitlines() if l.startswith("{")]
    if not last:
        print(sid, "ERROR", m.stdout[-500:], m.stderr[-500:], flush=True)
        continue
    det = json.loads(last[-1])["detected_by"]
    where = f"scratch lane {lane}" if lane else "/repo (git apply, quick checks, git checkout)"
    meta.setdefault("what_was_run", []).append(f"re-check at /verif commit {head} in {where}: detected by {det}")
    if not lane:
        meta["detected_by_quick_checks"] = det
        sv = [l for l in m.stdout.splitlines() if l.strip().startswith('{"profile"')][:1]
        if sv:
            meta["sample_violation"] = sv
        json.dump(meta, open(os.path.join(d, "meta.json"), "w"), indent=1)
    print(sid, prop, "caught" if prop in det or det else "MISSED", det, flush=True)
