#!/usr/bin/env python3
"""evaluate one seeded change delivered by a mutation agent and file it under seeded/
   usage: eval_mutant.py Cxx a|b [extra props...]"""
import json, os, shutil, subprocess, sys
ROOT = os.path.dirname(os.path.dirname(os.path.abspath(__file__)))
pid, var = sys.argv[1], sys.argv[2]
extra = [a for a in sys.argv[3:] if a not in ("round2", "round3", "round4", "round5", "round6")]
round2 = "round2" in sys.argv[3:]
round3 = "round3" in sys.argv[3:]
round4 = "round4" in sys.argv[3:]
round5 = "round5" in sys.argv[3:]
round6 = "round6" in sys.argv[3:]
src = (f"/tmp/mutout6_{pid}/{var}" if round6 else f"/tmp/mutout5_{pid}/{var}" if round5 else f"/tmp/mutout4_{pid}/{var}" if round4 else f"/tmp/mutout3_{pid}/{var}" if round3
       else f"/tmp/mutout2_{pid}/{var}" if round2 else f"/tmp/mutout_{pid}/{var}")
label = pid + ({"a": "k", "b": "l"}[var] if round6 else {"a": "i", "b": "j"}[var] if round5 else {"a": "g", "b": "h"}[var] if round4 else {"a": "e", "b": "f"}[var] if round3
               else {"a": "c", "b": "d"}[var] if round2 else var)
wt = f"/tmp/mut6_{pid}" if round6 else f"/tmp/mut5_{pid}" if round5 else f"/tmp/mut4_{pid}" if round4 else f"/tmp/mut_{pid}"
patch = os.path.join(src, "patch.diff")
ran = []
# 1. confirm in the scratch worktree: applies, existing tests pass
subprocess.run(["git", "-C", wt, "checkout", "-q", "--", "."])
r = subprocess.run(["git", "-C", wt, "apply", patch], capture_output=True, text=True)
if r.returncode != 0:
    print("patch does not apply", r.stderr); sys.exit(1)
t = subprocess.run(["cargo", "test", "--workspace", "--offline", "--no-fail-fast"], cwd=wt, capture_output=True, text=True,
                   env=dict(os.environ, CARGO_NET_OFFLINE="true"))
results = [l for l in (t.stdout + t.stderr).splitlines() if l.startswith("test result")]
tests_ok = t.returncode == 0
ran.append("cargo test --workspace --offline --no-fail-fast (in scratch worktree, change applied): " + ("pass" if tests_ok else "FAIL") + " " + "; ".join(results))
t2 = subprocess.run(["cargo", "test", "-p", "bio-seq", "--features", "translation,extra_codecs,serde", "--offline", "--no-fail-fast"], cwd=wt,
                    capture_output=True, text=True, env=dict(os.environ, CARGO_NET_OFFLINE="true"))
results2 = [l for l in (t2.stdout + t2.stderr).splitlines() if l.startswith("test result")]
ran.append("cargo test -p bio-seq --features translation,extra_codecs,serde --offline (change applied): " + ("pass" if t2.returncode == 0 else "FAIL") + " " + "; ".join(results2))
feature_tests_ok = t2.returncode == 0
# 2. demo fails with the change, passes without (standalone cargo demo projects only)
demo = os.path.join(src, "demo")
demo_with = demo_without = None
if os.path.exists(os.path.join(demo, "Cargo.toml")):
    def run_demo(release=False):
        cmd = ["cargo", "run", "--offline", "-q"] + (["--release"] if release else [])
        d = subprocess.run(cmd, cwd=demo, capture_output=True, text=True, env=dict(os.environ, CARGO_NET_OFFLINE="true"))
        return d.returncode
    demo_with = (run_demo(False), run_demo(True))
    subprocess.run(["git", "-C", wt, "checkout", "-q", "--", "."])
    demo_without = (run_demo(False), run_demo(True))
    ran.append(f"demo (cargo run, debug/release exit codes) with change: {demo_with}; without: {demo_without}")
subprocess.run(["git", "-C", wt, "checkout", "-q", "--", "."])
shutil.rmtree(os.path.join(wt, "target"), ignore_errors=True)
shutil.rmtree(os.path.join(demo, "target"), ignore_errors=True)
# 3. run the registered checks against /repo with the change applied
m = subprocess.run([sys.executable, os.path.join(ROOT, "tools", "mutant.py"), patch, pid] + extra, capture_output=True, text=True)
print(m.stdout[-3000:])
last = [l for l in m.stdout.splitlines() if l.startswith("{")]
detected = json.loads(last[-1])["detected_by"] if last else []
where = ("scratch lane " + os.environ["VERIF_LANE"] + " (frozen copy of /verif + worktree of /repo)") if os.environ.get("VERIF_LANE") else "/repo"
ran.append(f"tools/mutant.py (git apply in {where}; quick checks {[pid] + extra}; git checkout): detected by {detected}")
valid = tests_ok and (demo_with is None or (any(c != 0 for c in demo_with) and all(c == 0 for c in demo_without)))
out = os.path.join(ROOT, "seeded", label)
if valid:
    os.makedirs(out, exist_ok=True)
    shutil.copy(patch, os.path.join(out, "patch.diff"))
    if os.path.isdir(os.path.join(out, "demo")):
        shutil.rmtree(os.path.join(out, "demo"))
    shutil.copytree(demo, os.path.join(out, "demo"), ignore=shutil.ignore_patterns("target"))
    meta = {"breaks_property": pid, "origin": "independent sub-agent given only the property text and a scratch worktree",
            "what_it_needs_to_manifest": open(os.path.join(src, "meta.txt")).read().strip(),
            "what_was_run": ran, "detected_by_quick_checks": detected,
            "sample_violation": [l for l in m.stdout.splitlines() if l.strip().startswith("{\"profile\"")][:1]}
    json.dump(meta, open(os.path.join(out, "meta.json"), "w"), indent=1)
print(json.dumps({"id": label, "valid": valid, "tests_ok": tests_ok, "feature_tests_ok": feature_tests_ok, "demo_with": demo_with, "demo_without": demo_without, "detected": detected}))
