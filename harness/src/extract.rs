//! Tie 1: exhaustive extraction of every finite function graph of the crate,
//! evaluated on the real compiled code (this binary is built in dev and in
//! release; each writes its own JSON).
use crate::hc::HC;
use bio_seq::codec::{degenerate, masked, text};
use bio_seq::prelude::*;
use bio_seq::translation::{PartialTranslationTable, TranslationError, TranslationTable, STANDARD};
use serde_json::{json, Value};
use std::panic::catch_unwind;

fn opt_sym<A: HC>(f: impl FnOnce() -> Option<A> + std::panic::UnwindSafe) -> Value {
    match catch_unwind(f) {
        Ok(Some(s)) => json!(s.to_bits()),
        Ok(None) => json!("none"),
        Err(_) => json!("panic"),
    }
}

fn codec_tables<A: HC>() -> Value {
    let items: Vec<u8> = A::items().map(|s| s.to_bits()).collect();
    let mut tfb = vec![];
    let mut ufb = vec![];
    let mut tfa = vec![];
    let mut ufa = vec![];
    // every symbol value reachable through any decoder or items()
    let mut symbols: Vec<A> = A::items().collect();
    for b in 0..=255u8 {
        tfb.push(opt_sym::<A>(move || A::try_from_bits(b)));
        ufb.push(opt_sym::<A>(move || Some(A::unsafe_from_bits(b))));
        tfa.push(opt_sym::<A>(move || A::try_from_ascii(b)));
        ufa.push(opt_sym::<A>(move || Some(A::unsafe_from_ascii(b))));
        for s in [
            catch_unwind(move || A::try_from_bits(b)).ok().flatten(),
            catch_unwind(move || A::unsafe_from_bits(b)).ok(),
            catch_unwind(move || A::try_from_ascii(b)).ok().flatten(),
            catch_unwind(move || A::unsafe_from_ascii(b)).ok(),
        ]
        .into_iter()
        .flatten()
        {
            if !symbols.contains(&s) {
                symbols.push(s);
            }
        }
    }
    // per-symbol attributes, indexed by canonical code
    let mut to_char = vec![json!(0); 256];
    let mut comp = vec![json!("none"); 256];
    let mut mask = vec![json!("none"); 256];
    let mut unmask = vec![json!("none"); 256];
    let mut dup_codes = vec![];
    let mut seen = [false; 256];
    for s in &symbols {
        let s = *s;
        let code = s.to_bits() as usize;
        if seen[code] {
            dup_codes.push(code);
        }
        seen[code] = true;
        to_char[code] = json!(s.to_char() as u32);
        if A::HAS_COMP {
            comp[code] = opt_sym::<A>(move || A::sym_comp(s));
        }
        if A::HAS_MASK {
            mask[code] = opt_sym::<A>(move || A::sym_mask(s));
            unmask[code] = opt_sym::<A>(move || A::sym_unmask(s));
        }
    }
    let mut symcodes: Vec<u8> = symbols.iter().map(|s| s.to_bits()).collect();
    symcodes.sort();
    json!({
        "name": A::NAME, "bits": A::BITS, "items": items, "symbols": symcodes,
        "try_from_bits": tfb, "unsafe_from_bits": ufb, "try_from_ascii": tfa, "unsafe_from_ascii": ufa,
        "to_char": to_char, "comp": comp, "mask": mask, "unmask": unmask,
        "has_comp": A::HAS_COMP, "has_mask": A::HAS_MASK, "has_ord": A::HAS_ORD,
        "dup_codes": dup_codes,
    })
}

fn conversions() -> Value {
    let conv = |f: fn(Dna) -> u8| -> Vec<Value> {
        Dna::items()
            .map(|d| match catch_unwind(move || f(d)) {
                Ok(t) => json!([d.to_bits(), t]),
                Err(_) => json!([d.to_bits(), 999]),
            })
            .collect()
    };
    let dna_iupac = conv(|d| Iupac::from(d).to_bits());
    let dna_text = conv(|d| text::Dna::from(d).to_bits());
    let mut text_dna = vec![];
    for b in 0..=255u8 {
        // every step may panic in a changed tree: a panic is part of the function graph, not a crash of the extraction
        let r = catch_unwind(move || {
            let t = text::Dna::unsafe_from_bits(b);
            Dna::try_from(t).map(|d| d.to_bits())
        });
        text_dna.push(match r {
            Ok(Ok(d)) => json!(d),
            Ok(Err(ParseBioError::UnrecognisedBase(x))) => json!(format!("err:{x}")),
            Ok(Err(_)) => json!("err:other"),
            Err(_) => json!("panic"),
        });
    }
    json!({"dna_iupac": dna_iupac, "dna_text": dna_text, "text_dna": text_dna})
}

fn dna_of(code: usize) -> Dna {
    Dna::unsafe_from_bits(code as u8)
}

fn translation() -> Value {
    // to_amino on all 64 codons, codon index = c0 + 4*c1 + 16*c2 (packed value)
    let mut to_amino = vec![];
    for v in 0..64usize {
        let seq: Seq<Dna> = [dna_of(v & 3), dna_of((v >> 2) & 3), dna_of((v >> 4) & 3)].into_iter().collect();
        let r = catch_unwind(|| STANDARD.to_amino(&seq));
        to_amino.push(match r {
            Ok(a) => json!(a.to_bits()),
            Err(_) => json!("panic"),
        });
    }
    // try_to_amino on all 16^3 IUPAC codons in order (c0 slowest)
    let mut try_to_amino = vec![];
    for c0 in 0..16u8 {
        for c1 in 0..16u8 {
            for c2 in 0..16u8 {
                let seq: Seq<Iupac> = [c0, c1, c2].into_iter().map(Iupac::unsafe_from_bits).collect();
                let r = catch_unwind(|| STANDARD.try_to_amino(&seq));
                try_to_amino.push(match r {
                    Ok(Ok(a)) => json!(a.to_bits()),
                    Ok(Err(TranslationError::AmbiguousTranslation(_))) => json!("ambiguous"),
                    Ok(Err(TranslationError::InvalidCodon(_))) => json!("invalid"),
                    Ok(Err(_)) => json!("other"),
                    Err(_) => json!("panic"),
                });
            }
        }
    }
    // reverse translation for every amino symbol
    let mut try_to_codon = vec![];
    for a in Amino::items() {
        let r = catch_unwind(move || STANDARD.try_to_codon(a));
        try_to_codon.push(match r {
            Ok(Ok(codon)) => {
                let codes: Vec<u8> = codon.iter().map(|s| s.to_bits()).collect();
                json!([a.to_bits(), "codon", codes])
            }
            Ok(Err(TranslationError::AmbiguousCodon(_))) => json!([a.to_bits(), "ambiguous", []]),
            Ok(Err(TranslationError::InvalidAmino(_))) => json!([a.to_bits(), "invalidamino", []]),
            Ok(Err(_)) => json!([a.to_bits(), "other", []]),
            Err(_) => json!([a.to_bits(), "panic", []]),
        });
    }
    // Standard::to_codon (documented: always ambiguous)
    let mut to_codon = vec![];
    for a in Amino::items() {
        let r = catch_unwind(move || STANDARD.to_codon(a));
        to_codon.push(match r {
            Ok(Ok(_)) => json!("codon"),
            Ok(Err(TranslationError::AmbiguousCodon(_))) => json!("ambiguous"),
            Ok(Err(_)) => json!("other"),
            Err(_) => json!("panic"),
        });
    }
    json!({"to_amino": to_amino, "try_to_amino": try_to_amino, "try_to_codon": try_to_codon, "to_codon": to_codon})
}

fn rev2bit() -> Value {
    // REV_2BIT observed through Kmer<Dna,4>::to_rev on every byte value
    let mut t = vec![];
    for v in 0..256usize {
        let k: Kmer<Dna, 4> = Kmer::from(v);
        let r = catch_unwind(move || k.to_rev().bs);
        t.push(match r {
            Ok(x) => json!(x),
            Err(_) => json!("panic"),
        });
    }
    json!(t)
}

fn macro_tables() -> Value {
    use crate::derive_src::seqarray::{dna_seq, iupac_seq};
    let mut dna = vec![];
    let mut iupac = vec![];
    for ch in 0..128u8 {
        let s = String::from_utf8(vec![ch]).unwrap();
        let lit = syn::LitStr::new(&s, proc_macro2::Span::call_site());
        dna.push(match dna_seq(&lit) {
            Ok((n, bits)) => json!([n, bits]),
            Err(_) => json!("err"),
        });
        iupac.push(match iupac_seq(&lit) {
            Ok((n, bits)) => json!([n, bits]),
            Err(_) => json!("err"),
        });
    }
    json!({"dna": dna, "iupac": iupac})
}

fn parse_width_table() -> Value {
    use crate::derive_src::codec::parse_width;
    // rows: declared width none, then #[bits(0)] .. #[bits(9)]; columns: max discriminant 0..=255
    let mut rows = vec![];
    for decl in -1i32..=9 {
        let attrs: Vec<syn::Attribute> = if decl < 0 {
            vec![]
        } else {
            let e: syn::ItemEnum = syn::parse_str(&format!("#[bits({decl})] enum E {{ A = 0 }}")).unwrap();
            e.attrs
        };
        let mut row = vec![];
        for m in 0..=255u8 {
            let a = attrs.clone();
            let r = catch_unwind(move || parse_width(&a, m).map_err(|_| ()));
            row.push(match r {
                Ok(Ok(w)) => json!(w),
                Ok(Err(())) => json!("err"),
                Err(_) => json!("panic"),
            });
        }
        rows.push(row);
    }
    json!(rows)
}

pub fn run() {
    let codecs = vec![
        codec_tables::<Dna>(),
        codec_tables::<Iupac>(),
        codec_tables::<Amino>(),
        codec_tables::<text::Dna>(),
        codec_tables::<masked::Dna>(),
        codec_tables::<masked::Iupac>(),
        codec_tables::<degenerate::Dna>(),
    ];
    let out = json!({
        "profile": if cfg!(debug_assertions) { "debug" } else { "release" },
        "codecs": codecs,
        "conv": conversions(),
        "translation": translation(),
        "rev2bit": rev2bit(),
        "macros": macro_tables(),
        "parse_width": parse_width_table(),
        "decls": crate::decls::run(),
    });
    println!("{}", serde_json::to_string(&out).unwrap());
}
