//! Verification harness for bio-seq: links the crate from the working tree.
//!   harness extract            -> JSON of every finite function graph (Tie 1)
//!   harness eval < ops > out   -> one output line per protocol line (Tie 2)
#![allow(dead_code)]
mod ast;
mod decls;
mod eval;
mod extract;
mod hc;
mod kmer;
mod lits;
mod misc;
pub mod probe;
pub mod derive_src {
    #[path = "/repo/bio-seq-derive/src/codec.rs"]
    pub mod codec;
    #[path = "/repo/bio-seq-derive/src/seqarray.rs"]
    pub mod seqarray;
}

use std::io::{BufRead, Write};
use std::panic::{catch_unwind, AssertUnwindSafe};

fn eval_line(line: &str) -> String {
    let mut t = ast::Toks::new(line);
    let Ok(codec) = t.next() else { return "bad-op empty".into() };
    let Ok(q) = t.next() else { return "bad-op noquery".into() };
    let r = catch_unwind(AssertUnwindSafe(|| {
        let save = t.i;
        if let Some(r) = misc::special(codec, q, &mut t) {
            return r;
        }
        t.i = save;
        with_codec!(codec, A => eval::query::<A>(q, &mut t), Err(eval::Fail::BadOp("codec".into())))
    }));
    match r {
        Ok(Ok(s)) => format!("ok {s}"),
        Ok(Err(f)) => eval::fail_str(&f),
        Err(_) => "panic".into(),
    }
}

fn main() {
    std::panic::set_hook(Box::new(|_| {}));
    let args: Vec<String> = std::env::args().collect();
    match args.get(1).map(|s| s.as_str()) {
        Some("extract") => extract::run(),
        Some("eval") => {
            let stdin = std::io::stdin();
            let stdout = std::io::stdout();
            let mut out = std::io::BufWriter::new(stdout.lock());
            for line in stdin.lock().lines() {
                let line = line.unwrap();
                let l = line.trim();
                if l.is_empty() || l.starts_with('#') {
                    writeln!(out, "skip").unwrap();
                    continue;
                }
                writeln!(out, "{}", eval_line(l)).unwrap();
            }
        }
        _ => {
            eprintln!("usage: harness extract|eval");
            std::process::exit(2);
        }
    }
}
