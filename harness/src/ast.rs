//! Operation language shared with the Lean driver (lean/Main.lean).
//! One self-contained operation per line, prefix tokens, fixed arities.

#[derive(Debug, Clone, Copy, PartialEq)]
pub enum Form {
    Range,
    RangeTo,
    RangeToIncl,
    RangeIncl,
    RangeFrom,
    Full,
    Single,
}

#[derive(Debug, Clone, Copy, PartialEq)]
pub enum Bnd {
    Incl(usize),
    Excl(usize),
    Unb,
}

#[derive(Debug, Clone, Copy, PartialEq)]
pub enum RemForm {
    Range,
    RangeIncl,
    RangeTo,
    RangeToIncl,
    RangeFrom,
    Full,
    Bounds(Bnd, Bnd),
}

#[derive(Debug, Clone, Copy, PartialEq)]
pub enum Un {
    Rev,
    Comp,
    RevComp,
    Mask,
    Unmask,
}

/// owned values
#[derive(Debug, Clone)]
pub enum V {
    Parse(String, Vec<u8>),
    Own(Box<S>),
    Into(Box<S>),
    Trim(Vec<u8>),
    InPlace(Un, Box<V>),
    ToOwned(Un, Box<V>), // to_rev / to_comp / ... called on &Seq
    ToSlice(Un, Box<S>), // to_rev / to_comp / to_revcomp called on &SeqSlice
    And(Box<S>, Box<S>),
    Or(Box<S>, Box<S>),
    AndSV(Box<S>, Box<V>), // &SeqSlice & &Seq (right operand an owned sequence, by reference)
    OrSV(Box<S>, Box<V>),
    BitAnd(Box<V>, Box<V>),
    BitOr(Box<V>, Box<V>),
    Push(Box<V>, usize),
    Ext(Box<V>, Vec<u8>),
    ExtKind(String, Box<V>, Vec<u8>),
    Append(Box<V>, Box<S>),
    Prepend(Box<V>, Box<S>),
    Insert(Box<V>, usize, Box<S>),
    Remove(Box<V>, RemForm, usize, usize),
    Trunc(Box<V>, usize),
    Clear(Box<V>),
    FromRaw(usize, Box<V>),
    FromWords(usize, Vec<usize>),
    OfKmer(usize, Box<S>),
    CloneOf(Box<V>),
    FromBits(usize, Box<V>),
    VecWords(Vec<usize>),
    FromArr(bool, Box<S>), // Seq::from(&SeqArray) (false) / Seq::from(SeqArray) (true) of a hand-built array
}

/// borrowed slices
#[derive(Debug, Clone)]
pub enum S {
    Val(Box<V>),
    Sl(Form, usize, usize, Box<S>),
    Kd(usize, Box<S>),
    Lit(usize),
    Arr(Box<S>), // the same content presented as a hand-built SeqArray<A, N, W> (Deref)
}

pub struct Toks<'a> {
    pub v: Vec<&'a str>,
    pub i: usize,
}

pub type PResult<T> = Result<T, String>;

impl<'a> Toks<'a> {
    pub fn new(line: &'a str) -> Self {
        Toks { v: line.split_whitespace().collect(), i: 0 }
    }
    pub fn next(&mut self) -> PResult<&'a str> {
        let t = self.v.get(self.i).copied().ok_or("eol")?;
        self.i += 1;
        Ok(t)
    }
    pub fn peek(&self) -> Option<&'a str> {
        self.v.get(self.i).copied()
    }
    pub fn done(&self) -> bool {
        self.i >= self.v.len()
    }
    pub fn num(&mut self) -> PResult<usize> {
        self.next()?.parse::<usize>().map_err(|e| e.to_string())
    }
    pub fn hex(&mut self) -> PResult<Vec<u8>> {
        let t = self.next()?;
        unhex(t)
    }
}

pub fn unhex(t: &str) -> PResult<Vec<u8>> {
    if t == "-" {
        return Ok(vec![]);
    }
    if t.len() % 2 != 0 {
        return Err("odd hex".into());
    }
    (0..t.len() / 2).map(|i| u8::from_str_radix(&t[2 * i..2 * i + 2], 16).map_err(|e| e.to_string())).collect()
}

pub fn hex(b: &[u8]) -> String {
    if b.is_empty() {
        return "-".into();
    }
    b.iter().map(|x| format!("{x:02x}")).collect()
}

fn form(t: &str) -> PResult<Form> {
    Ok(match t {
        "r" => Form::Range,
        "rt" => Form::RangeTo,
        "rti" => Form::RangeToIncl,
        "ri" => Form::RangeIncl,
        "rf" => Form::RangeFrom,
        "full" => Form::Full,
        "one" => Form::Single,
        _ => return Err(format!("bad form {t}")),
    })
}

fn bnd(kind: &str, n: usize) -> PResult<Bnd> {
    Ok(match kind {
        "i" => Bnd::Incl(n),
        "e" => Bnd::Excl(n),
        "u" => Bnd::Unb,
        _ => return Err("bad bound".into()),
    })
}

fn remform(t: &str, a: usize, b: usize) -> PResult<RemForm> {
    Ok(match t {
        "r" => RemForm::Range,
        "ri" => RemForm::RangeIncl,
        "rt" => RemForm::RangeTo,
        "rti" => RemForm::RangeToIncl,
        "rf" => RemForm::RangeFrom,
        "full" => RemForm::Full,
        _ => {
            // two letters: start bound kind, end bound kind
            if t.len() == 3 && t.starts_with('b') {
                RemForm::Bounds(bnd(&t[1..2], a)?, bnd(&t[2..3], b)?)
            } else {
                return Err(format!("bad remform {t}"));
            }
        }
    })
}

fn un(t: &str) -> Option<Un> {
    Some(match t {
        "rev" => Un::Rev,
        "comp" => Un::Comp,
        "revcomp" => Un::RevComp,
        "mask" => Un::Mask,
        "unmask" => Un::Unmask,
        _ => return None,
    })
}

pub fn parse_v(t: &mut Toks) -> PResult<V> {
    let k = t.next()?;
    parse_v_kw(k, t)
}

fn parse_v_kw(k: &str, t: &mut Toks) -> PResult<V> {
    Ok(match k {
        "p" => {
            let entry = t.next()?.to_string();
            V::Parse(entry, t.hex()?)
        }
        "own" => V::Own(Box::new(parse_s(t)?)),
        "into" => V::Into(Box::new(parse_s(t)?)),
        "trim" => V::Trim(t.hex()?),
        "rev" | "comp" | "revcomp" | "mask" | "unmask" => V::InPlace(un(k).unwrap(), Box::new(parse_v(t)?)),
        "torev" | "tocomp" | "torevcomp" | "tomask" | "tounmask" => {
            V::ToOwned(un(&k[2..]).unwrap(), Box::new(parse_v(t)?))
        }
        "storev" | "stocomp" | "storevcomp" => V::ToSlice(un(&k[3..]).unwrap(), Box::new(parse_s(t)?)),
        "and" => V::And(Box::new(parse_s(t)?), Box::new(parse_s(t)?)),
        "or" => V::Or(Box::new(parse_s(t)?), Box::new(parse_s(t)?)),
        "andsv" => V::AndSV(Box::new(parse_s(t)?), Box::new(parse_v(t)?)),
        "orsv" => V::OrSV(Box::new(parse_s(t)?), Box::new(parse_v(t)?)),
        "bitand" => V::BitAnd(Box::new(parse_v(t)?), Box::new(parse_v(t)?)),
        "bitor" => V::BitOr(Box::new(parse_v(t)?), Box::new(parse_v(t)?)),
        "push" => {
            let i = t.num()?;
            V::Push(Box::new(parse_v(t)?), i)
        }
        "ext" => {
            let h = t.hex()?;
            V::Ext(Box::new(parse_v(t)?), h)
        }
        "extk" => {
            let kind = t.next()?.to_string();
            let h = t.hex()?;
            V::ExtKind(kind, Box::new(parse_v(t)?), h)
        }
        "append" => V::Append(Box::new(parse_v(t)?), Box::new(parse_s(t)?)),
        "prepend" => V::Prepend(Box::new(parse_v(t)?), Box::new(parse_s(t)?)),
        "insert" => {
            let i = t.num()?;
            V::Insert(Box::new(parse_v(t)?), i, Box::new(parse_s(t)?))
        }
        "remove" => {
            let f = t.next()?;
            let a = t.num()?;
            let b = t.num()?;
            V::Remove(Box::new(parse_v(t)?), remform(f, a, b)?, a, b)
        }
        "trunc" => {
            let n = t.num()?;
            V::Trunc(Box::new(parse_v(t)?), n)
        }
        "clear" => V::Clear(Box::new(parse_v(t)?)),
        "fromraw" => {
            let n = t.num()?;
            V::FromRaw(n, Box::new(parse_v(t)?))
        }
        "fromwords" => {
            let n = t.num()?;
            let cnt = t.num()?;
            let mut ws = vec![];
            for _ in 0..cnt {
                ws.push(t.num()?);
            }
            V::FromWords(n, ws)
        }
        "fromarr" => {
            let byval = match t.next()? {
                "ref" => false,
                "val" => true,
                _ => return Err("fromarr kind".into()),
            };
            V::FromArr(byval, Box::new(parse_s(t)?))
        }
        "vecwords" => {
            let cnt = t.num()?;
            let mut ws = vec![];
            for _ in 0..cnt {
                ws.push(t.num()?);
            }
            V::VecWords(ws)
        }
        "ofkmer" => {
            let kk = t.num()?;
            V::OfKmer(kk, Box::new(parse_s(t)?))
        }
        "clone" => V::CloneOf(Box::new(parse_v(t)?)),
        "frombits" => {
            let off = t.num()?;
            V::FromBits(off, Box::new(parse_v(t)?))
        }
        _ => return Err(format!("bad value keyword {k}")),
    })
}

pub fn parse_s(t: &mut Toks) -> PResult<S> {
    let k = t.next()?;
    Ok(match k {
        "sl" => {
            let f = form(t.next()?)?;
            let a = t.num()?;
            let b = t.num()?;
            S::Sl(f, a, b, Box::new(parse_s(t)?))
        }
        "kd" => {
            let kk = t.num()?;
            S::Kd(kk, Box::new(parse_s(t)?))
        }
        "lit" => S::Lit(t.num()?),
        "arr" => S::Arr(Box::new(parse_s(t)?)),
        _ => S::Val(Box::new(parse_v_kw(k, t)?)),
    })
}
