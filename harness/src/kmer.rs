//! k-mer part of the protocol: every `(codec, K, storage)` instantiation that
//! fits is reachable through the `with_k!` / storage dispatch below.
use crate::ast::*;
use crate::eval::*;
use crate::hc::HC;
use crate::with_k;
use bio_seq::kmer::KmerStorage;
use bio_seq::prelude::*;
use std::marker::PhantomData;

pub trait HS: KmerStorage + Copy + 'static + serde::Serialize + serde::de::DeserializeOwned {
    const SBITS: usize;
    fn to_u128(self) -> u128;
    fn from_u128(v: u128) -> Self;
}
impl HS for usize {
    const SBITS: usize = 64;
    fn to_u128(self) -> u128 {
        self as u128
    }
    fn from_u128(v: u128) -> Self {
        v as usize
    }
}
impl HS for u64 {
    const SBITS: usize = 64;
    fn to_u128(self) -> u128 {
        self as u128
    }
    fn from_u128(v: u128) -> Self {
        v as u64
    }
}
impl HS for u128 {
    const SBITS: usize = 128;
    fn to_u128(self) -> u128 {
        self
    }
    fn from_u128(v: u128) -> Self {
        v
    }
}

/// like `with_k!` but up to 128 (u128 storage of the 1-bit codec)
#[macro_export]
macro_rules! with_k128 {
    ($k:expr, $K:ident => $body:expr) => {
        $crate::with_k!(@arms $k, $K => $body;
            1 2 3 4 5 6 7 8 9 10 11 12 13 14 15 16 17 18 19 20 21 22 23 24 25 26 27 28 29 30 31 32
            33 34 35 36 37 38 39 40 41 42 43 44 45 46 47 48 49 50 51 52 53 54 55 56 57 58 59 60 61 62 63 64
            65 66 67 68 69 70 71 72 73 74 75 76 77 78 79 80 81 82 83 84 85 86 87 88 89 90 91 92 93 94 95 96
            97 98 99 100 101 102 103 104 105 106 107 108 109 110 111 112 113 114 115 116 117 118 119 120
            121 122 123 124 125 126 127 128)
    };
}

pub fn mk<A: HC, const K: usize, S: HS>(v: u128) -> Kmer<A, K, S> {
    Kmer { _p: PhantomData, bs: S::from_u128(v) }
}

fn val(t: &mut Toks) -> R<u128> {
    t.next()?.parse::<u128>().map_err(|e| Fail::BadOp(e.to_string()))
}

/// operations available for every storage type
fn op_any<A: HC, const K: usize, S: HS>(op: &str, t: &mut Toks) -> R<String> {
    if K * A::BITS as usize > S::SBITS {
        return Err(Fail::Unsup);
    }
    Ok(match op {
        "try" => {
            let s = parse_s(t)?;
            eval_s::<A, _>(&s, &mut |x| Ok(Kmer::<A, K, S>::try_from(x)?.bs.to_u128().to_string()))?
        }
        "unsafefrom" => {
            let s = parse_s(t)?;
            eval_s::<A, _>(&s, &mut |x| Ok(Kmer::<A, K, S>::unsafe_from_seqslice(x).bs.to_u128().to_string()))?
        }
        "fromstr" => {
            let h = t.hex()?;
            let txt = String::from_utf8(h).map_err(|_| Fail::BadOp("utf8".into()))?;
            Kmer::<A, K, S>::from_str(&txt)?.bs.to_u128().to_string()
        }
        "show" => hex(mk::<A, K, S>(val(t)?).to_string().as_bytes()),
        "len" => {
            let k = mk::<A, K, S>(val(t)?);
            format!("{} {}", k.len(), k.is_empty())
        }
        "rotl" => {
            let v = val(t)?;
            let n = t.num()? as u32;
            mk::<A, K, S>(v).rotated_left(n).bs.to_u128().to_string()
        }
        "rotr" => {
            let v = val(t)?;
            let n = t.num()? as u32;
            mk::<A, K, S>(v).rotated_right(n).bs.to_u128().to_string()
        }
        "pushl" => {
            let v = val(t)?;
            let i = t.num()?;
            mk::<A, K, S>(v).pushl(item::<A>(i)).bs.to_u128().to_string()
        }
        "pushr" => {
            let v = val(t)?;
            let i = t.num()?;
            mk::<A, K, S>(v).pushr(item::<A>(i)).bs.to_u128().to_string()
        }
        "hash" => hash_events(&mk::<A, K, S>(val(t)?)),
        "eqk" => {
            let a = mk::<A, K, S>(val(t)?);
            let b = mk::<A, K, S>(val(t)?);
            format!("{} {}", a == b, a != b)
        }
        "eq" => {
            let p = t.next()?.to_string();
            let k = mk::<A, K, S>(val(t)?);
            let s = parse_s(t)?;
            eval_s::<A, _>(&s, &mut |x| {
                Ok(match p.as_str() {
                    "slice" => format!("{}", PartialEq::<SeqSlice<A>>::eq(&k, x)),
                    "refslice" => format!("{}", k == x),
                    _ => return Err(Fail::BadOp("pairing".into())),
                })
            })?
        }
        "serde" => {
            let k = mk::<A, K, S>(val(t)?);
            let bin = bincode::serialize(&k).map_err(|e| Fail::BadOp(e.to_string()))?;
            let k2: Kmer<A, K, S> = bincode::deserialize(&bin).map_err(|e| Fail::BadOp(e.to_string()))?;
            let js = serde_json::to_string(&k).map_err(|e| Fail::BadOp(e.to_string()))?;
            let k3: Kmer<A, K, S> = serde_json::from_str(&js).map_err(|e| Fail::BadOp(e.to_string()))?;
            format!(
                "{} {} {} {}",
                k2.bs.to_u128(),
                k3.bs.to_u128(),
                k2 == k && k3 == k,
                hash_events(&k2) == hash_events(&k) && k2.to_string() == k.to_string() && k3.to_string() == k.to_string()
            )
        }
        _ => return Err(Fail::BadOp(format!("kmer op {op}"))),
    })
}

/// operations that exist only for `usize`-backed k-mers
fn op_usize<A: HC, const K: usize>(op: &str, t: &mut Toks) -> R<String> {
    if K * A::BITS as usize > 64 {
        return Err(Fail::Unsup);
    }
    Ok(match op {
        "tryseq" => {
            let v = eval_v::<A>(&parse_v(t)?)?;
            Kmer::<A, K>::try_from(v)?.bs.to_string()
        }
        "deref" => {
            let k = mk::<A, K, usize>(val(t)?);
            let r: &SeqSlice<A> = &k;
            let a: &SeqSlice<A> = k.as_ref();
            format!("{} {}", show(r), a == r)
        }
        "toseq" => {
            let k = mk::<A, K, usize>(val(t)?);
            show(&Seq::<A>::from(k))
        }
        "int" => usize::from(&mk::<A, K, usize>(val(t)?)).to_string(),
        "fromint" => Kmer::<A, K, usize>::from(val(t)? as usize).bs.to_string(),
        "rev" => mk::<A, K, usize>(val(t)?).to_rev().bs.to_string(),
        "revmut" => {
            let mut k = mk::<A, K, usize>(val(t)?);
            k.rev();
            k.bs.to_string()
        }
        "eqstr" => {
            let k = mk::<A, K, usize>(val(t)?);
            let h = t.hex()?;
            let txt = String::from_utf8(h).map_err(|_| Fail::BadOp("utf8".into()))?;
            format!("{}", k == txt.as_str())
        }
        "eqseq" => {
            let k = mk::<A, K, usize>(val(t)?);
            let v = eval_v::<A>(&parse_v(t)?)?;
            format!("{}", k == v)
        }
        "iterhash" => {
            // a k-mer yielded by the iterator hashes like the window it was copied from
            let s = parse_s(t)?;
            eval_s::<A, _>(&s, &mut |x| {
                let mut out = vec![];
                for (km, w) in x.kmers::<K>().zip(x.windows(K)) {
                    out.push(format!("{}", hash_events(&km) == hash_events(w)));
                }
                Ok(if out.is_empty() { "-".into() } else { out.join(",") })
            })?
        }
        _ => return Err(Fail::BadOp(format!("kmer op {op}"))),
    })
}

pub fn kmers_list<A: HC>(k: usize, x: &SeqSlice<A>) -> R<String> {
    with_k!(k, K => {
        if K * A::BITS as usize > 64 { return Err(Fail::Unsup); }
        let v: Vec<String> = x.kmers::<K>().map(|km| km.bs.to_string()).collect();
        Ok(if v.is_empty() { "-".to_string() } else { v.join(",") })
    })
}

pub fn query<A: HC>(q: &str, t: &mut Toks) -> R<String> {
    match q {
        "kmers" => {
            let k = t.num()?;
            let s = parse_s(t)?;
            eval_s::<A, _>(&s, &mut |x| kmers_list::<A>(k, x))
        }
        "kmer" => {
            let op = t.next()?.to_string();
            let k = t.num()?;
            let st = t.next()?.to_string();
            match op.as_str() {
                "tryseq" | "deref" | "toseq" | "int" | "fromint" | "rev" | "revmut" | "eqstr" | "eqseq" | "iterhash" => {
                    if st != "usize" {
                        return Err(Fail::Unsup);
                    }
                    with_k!(k, K => op_usize::<A, K>(&op, t))
                }
                "comp" | "revcomp" | "compmut" | "revcompmut" | "cmp" | "minmax" | "canon" => A::kmer_special(&op, k, &st, t),
                "fromint64" => {
                    // From<u64> for Kmer<_,_,u64>, From<usize> for Kmer<_,_,u64>
                    let v = val(t)?;
                    with_k!(k, K => {
                        let a: Kmer<A, K, u64> = Kmer::from(v as u64);
                        let b: Kmer<A, K, u64> = Kmer::from(v as usize);
                        Ok(format!("{} {}", a.bs, b.bs))
                    })
                }
                _ => match st.as_str() {
                    "usize" => with_k!(k, K => op_any::<A, K, usize>(&op, t)),
                    "u64" => with_k!(k, K => op_any::<A, K, u64>(&op, t)),
                    "u128" => crate::with_k128!(k, K => op_any::<A, K, u128>(&op, t)),
                    _ => Err(Fail::BadOp("storage".into())),
                },
            }
        }
        _ => crate::misc::query::<A>(q, t),
    }
}

/// ordering on k-mers needs `A: Ord`; complement needs `Kmer<Dna, K, usize>`
pub fn special_ord<A: HC + Ord>(op: &str, k: usize, st: &str, t: &mut Toks) -> R<String> {
    fn ord3<A: HC + Ord, const K: usize, S: HS + Ord>(t: &mut Toks) -> R<String> {
        if K * A::BITS as usize > S::SBITS {
            return Err(Fail::Unsup);
        }
        let a = mk::<A, K, S>(val(t)?);
        let b = mk::<A, K, S>(val(t)?);
        let o = match a.cmp(&b) {
            std::cmp::Ordering::Less => "lt",
            std::cmp::Ordering::Equal => "eq",
            std::cmp::Ordering::Greater => "gt",
        };
        Ok(format!("{o} {} {} {:?}", a < b, a <= b, a.partial_cmp(&b) == Some(a.cmp(&b))))
    }
    match op {
        "cmp" => match st {
            "usize" => with_k!(k, K => ord3::<A, K, usize>(t)),
            "u64" => with_k!(k, K => ord3::<A, K, u64>(t)),
            "u128" => crate::with_k128!(k, K => ord3::<A, K, u128>(t)),
            _ => Err(Fail::BadOp("storage".into())),
        },
        "minmax" => {
            let s = parse_s(t)?;
            eval_s::<A, _>(&s, &mut |x| {
                with_k!(k, K => {
                    if K * A::BITS as usize > 64 { return Err(Fail::Unsup); }
                    let mn = x.kmers::<K>().min().map(|k| k.bs.to_string()).unwrap_or("none".into());
                    let mx = x.kmers::<K>().max().map(|k| k.bs.to_string()).unwrap_or("none".into());
                    let mut v: Vec<Kmer<A, K>> = x.kmers::<K>().collect();
                    v.sort();
                    let sorted: Vec<String> = v.iter().map(|k| k.bs.to_string()).collect();
                    Ok(format!("{mn} {mx} {}", if sorted.is_empty() { "-".to_string() } else { sorted.join(",") }))
                })
            })
        }
        _ => Err(Fail::Unsup),
    }
}

pub fn special_dna(op: &str, k: usize, st: &str, t: &mut Toks) -> R<String> {
    if st != "usize" {
        return Err(Fail::Unsup);
    }
    with_k!(k, K => {
        if K * 2 > 64 { return Err(Fail::Unsup); }
        let km = mk::<Dna, K, usize>(val(t)?);
        Ok(match op {
            "comp" => km.to_comp().bs.to_string(),
            "revcomp" => km.to_revcomp().bs.to_string(),
            "compmut" => { let mut x = km; x.comp(); x.bs.to_string() }
            "revcompmut" => { let mut x = km; x.revcomp(); x.bs.to_string() }
            "canon" => {
                let rc = km.to_revcomp();
                let c1 = std::cmp::min(km, rc);
                let c2 = std::cmp::min(rc, rc.to_revcomp());
                format!("{} {}", c1.bs, c2.bs)
            }
            _ => return Err(Fail::Unsup),
        })
    })
}
