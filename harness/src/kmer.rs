//! k-mer part of the protocol: every `(codec, K, storage)` instantiation that
//! fits is reachable through the `with_k!` / storage dispatch below.
use crate::ast::*;
use crate::eval::*;
use crate::hc::HC;
use bio_seq::kmer::KmerStorage;
use bio_seq::prelude::*;
use std::marker::PhantomData;

pub trait HS: KmerStorage + Copy + 'static + serde::Serialize + serde::de::DeserializeOwned {
    const SBITS: usize;
    fn to_u128(self) -> u128;
    fn from_u128(v: u128) -> Self;
}
impl HS for usize {
    const SBITS: usize = 64;
    fn to_u128(self) -> u128 {
        self as u128
    }
    fn from_u128(v: u128) -> Self {
        v as usize
    }
}
impl HS for u64 {
    const SBITS: usize = 64;
    fn to_u128(self) -> u128 {
        self as u128
    }
    fn from_u128(v: u128) -> Self {
        v as u64
    }
}
impl HS for u128 {
    const SBITS: usize = 128;
    fn to_u128(self) -> u128 {
        self
    }
    fn from_u128(v: u128) -> Self {
        v
    }
}

/// like `with_k!` but up to 128 (u128 storage of the 1-bit codec)
#[macro_export]
macro_rules! with_k128 {
    ($k:expr, $K:ident => $body:expr) => {
        $crate::with_k!(@arms $k, $K => $body;
            1 2 3 4 5 6 7 8 9 10 11 12 13 14 15 16 17 18 19 20 21 22 23 24 25 26 27 28 29 30 31 32
            33 34 35 36 37 38 39 40 41 42 43 44 45 46 47 48 49 50 51 52 53 54 55 56 57 58 59 60 61 62 63 64
            65 66 67 68 69 70 71 72 73 74 75 76 77 78 79 80 81 82 83 84 85 86 87 88 89 90 91 92 93 94 95 96
            97 98 99 100 101 102 103 104 105 106 107 108 109 110 111 112 113 114 115 116 117 118 119 120
            121 122 123 124 125 126 127 128)
    };
}

pub fn mk<A: HC, const K: usize, S: HS>(v: u128) -> Kmer<A, K, S> {
    Kmer { _p: PhantomData, bs: S::from_u128(v) }
}

fn val(t: &mut Toks) -> R<u128> {
    t.next()?.parse::<u128>().map_err(|e| Fail::BadOp(e.to_string()))
}

/// pre-evaluated arguments of a k-mer operation (so that the code instantiated
/// per `(codec, K, storage)` stays small)
pub struct KArgs<'a, A: HC> {
    pub v: u128,
    pub v2: u128,
    pub n: usize,
    pub text: String,
    pub pairing: String,
    pub slice: Option<&'a SeqSlice<A>>,
    pub seq: Option<Seq<A>>,
}

/// operations available for every storage type
pub fn op_any<A: HC, const K: usize, S: HS>(op: &str, a: &KArgs<A>) -> R<String> {
    if K * A::BITS as usize > S::SBITS {
        return Err(Fail::Unsup);
    }
    Ok(match op {
        "try" => Kmer::<A, K, S>::try_from(a.slice.unwrap())?.bs.to_u128().to_string(),
        "unsafefrom" => Kmer::<A, K, S>::unsafe_from_seqslice(a.slice.unwrap()).bs.to_u128().to_string(),
        "fromstr" => Kmer::<A, K, S>::from_str(&a.text)?.bs.to_u128().to_string(),
        "show" => hex(mk::<A, K, S>(a.v).to_string().as_bytes()),
        "len" => {
            let k = mk::<A, K, S>(a.v);
            format!("{} {}", k.len(), k.is_empty())
        }
        "rotl" => mk::<A, K, S>(a.v).rotated_left(a.n as u32).bs.to_u128().to_string(),
        "rotr" => mk::<A, K, S>(a.v).rotated_right(a.n as u32).bs.to_u128().to_string(),
        "pushl" => mk::<A, K, S>(a.v).pushl(item::<A>(a.n)).bs.to_u128().to_string(),
        "pushr" => mk::<A, K, S>(a.v).pushr(item::<A>(a.n)).bs.to_u128().to_string(),
        "hash" => hash_events(&mk::<A, K, S>(a.v)),
        "hasheq" => {
            // a k-mer hashes like the slice it compares equal to
            let k = mk::<A, K, S>(a.v);
            let x = a.slice.unwrap();
            if k == x {
                format!("eq:true hash:{}", hash_events(&k) == hash_events(x))
            } else {
                "eq:false".to_string()
            }
        }
        "eqk" => {
            let x = mk::<A, K, S>(a.v);
            let y = mk::<A, K, S>(a.v2);
            format!("{} {}", x == y, x != y)
        }
        "eq" => {
            let k = mk::<A, K, S>(a.v);
            let x = a.slice.unwrap();
            match a.pairing.as_str() {
                "slice" => format!("{}", PartialEq::<SeqSlice<A>>::eq(&k, x)),
                "refslice" => format!("{}", k == x),
                // the sequence on the LEFT (`slice == kmer`, `&slice == kmer`, `seq == kmer`): these impls do not exist in the
                // unchanged crate; when a tree provides them they must agree with the k-mer-on-the-left spelling
                "rslice" => format!("{}", crate::probe_eq!(x, &k, || PartialEq::<SeqSlice<A>>::eq(&k, x))),
                "rrefslice" => format!("{}", crate::probe_eq!(&x, &k, || k == x)),
                "rseq" => {
                    let o: Seq<A> = x.to_owned();
                    format!("{}", crate::probe_eq!(&o, &k, || k == x))
                }
                // Kmer == SeqArray<A, K, 1> / &SeqArray<A, K, 1> (hand-built array of exactly K symbols in one word)
                "arr" | "refarr" => {
                    if x.len() != K || K * A::BITS as usize > 64 {
                        return Err(Fail::BadOp("arr length".into()));
                    }
                    let arr = crate::hc::make_arr::<A, K, 1>(x);
                    if a.pairing == "arr" {
                        format!("{}", k == arr)
                    } else {
                        format!("{}", k == &arr)
                    }
                }
                _ => return Err(Fail::BadOp("pairing".into())),
            }
        }
        "serde" => {
            let k = mk::<A, K, S>(a.v);
            let bin = bincode::serialize(&k).map_err(|e| Fail::BadOp(e.to_string()))?;
            let k2: Kmer<A, K, S> = bincode::deserialize(&bin).map_err(|e| Fail::BadOp(e.to_string()))?;
            let js = serde_json::to_string(&k).map_err(|e| Fail::BadOp(e.to_string()))?;
            let k3: Kmer<A, K, S> = serde_json::from_str(&js).map_err(|e| Fail::BadOp(e.to_string()))?;
            format!(
                "{} {} {} {}",
                k2.bs.to_u128(),
                k3.bs.to_u128(),
                k2 == k && k3 == k,
                hash_events(&k2) == hash_events(&k) && k2.to_string() == k.to_string() && k3.to_string() == k.to_string()
            )
        }
        _ => return Err(Fail::BadOp(format!("kmer op {op}"))),
    })
}

/// operations that exist only for `usize`-backed k-mers
pub fn op_usize<A: HC, const K: usize>(op: &str, a: &KArgs<A>) -> R<String> {
    if K * A::BITS as usize > 64 {
        return Err(Fail::Unsup);
    }
    Ok(match op {
        "tryseq" => Kmer::<A, K>::try_from(a.seq.as_ref().unwrap().clone())?.bs.to_string(),
        "deref" => {
            let k = mk::<A, K, usize>(a.v);
            let r: &SeqSlice<A> = &k;
            let ar: &SeqSlice<A> = k.as_ref();
            format!("{} {}", show(r), ar == r)
        }
        "toseq" => show(&Seq::<A>::from(mk::<A, K, usize>(a.v))),
        "int" => usize::from(&mk::<A, K, usize>(a.v)).to_string(),
        "fromint" => Kmer::<A, K, usize>::from(a.v as usize).bs.to_string(),
        // k-mers decoded from integers order like the integers (From<usize> for usize / u64 storage, From<u64>)
        "cmpint" => {
            let (a1, b1) = (a.v as usize, a.v2 as usize);
            let (x, y): (Kmer<A, K, usize>, Kmer<A, K, usize>) = (Kmer::from(a1), Kmer::from(b1));
            let (x6, y6): (Kmer<A, K, u64>, Kmer<A, K, u64>) = (Kmer::from(a1 as u64), Kmer::from(b1 as u64));
            let (x7, y7): (Kmer<A, K, u64>, Kmer<A, K, u64>) = (Kmer::from(a1), Kmer::from(b1));
            format!("{} {} {} {} {} {}", x.bs == y.bs, x.bs < y.bs, x6.bs == y6.bs, x6.bs < y6.bs, x7.bs < y7.bs, x == mk::<A, K, usize>(a.v))
        }
        "fromint64" => {
            let x: Kmer<A, K, u64> = Kmer::from(a.v as u64);
            let y: Kmer<A, K, u64> = Kmer::from(a.v as usize);
            format!("{} {}", x.bs, y.bs)
        }
        "rev" => mk::<A, K, usize>(a.v).to_rev().bs.to_string(),
        "revmut" => {
            let mut k = mk::<A, K, usize>(a.v);
            k.rev();
            k.bs.to_string()
        }
        "eqstr" => format!("{}", mk::<A, K, usize>(a.v) == a.text.as_str()),
        "eqseq" => format!("{}", mk::<A, K, usize>(a.v) == *a.seq.as_ref().unwrap()),
        "iterhash" => {
            // a k-mer yielded by the iterator hashes like the window it was copied from
            let x = a.slice.unwrap();
            let mut out = vec![];
            for (km, w) in x.kmers::<K>().zip(x.windows(K)) {
                out.push(format!("{}", hash_events(&km) == hash_events(w)));
            }
            if out.is_empty() { "-".into() } else { out.join(",") }
        }
        "kmers" => {
            let v: Vec<String> = a.slice.unwrap().kmers::<K>().map(|km| km.bs.to_string()).collect();
            if v.is_empty() { "-".to_string() } else { v.join(",") }
        }
        _ => return Err(Fail::BadOp(format!("kmer op {op}"))),
    })
}

pub fn ord_any<A: HC + Ord, const K: usize, S: HS + Ord>(op: &str, a: &KArgs<A>) -> R<String> {
    if K * A::BITS as usize > S::SBITS {
        return Err(Fail::Unsup);
    }
    Ok(match op {
        "cmp" => {
            let x = mk::<A, K, S>(a.v);
            let y = mk::<A, K, S>(a.v2);
            let o = match x.cmp(&y) {
                std::cmp::Ordering::Less => "lt",
                std::cmp::Ordering::Equal => "eq",
                std::cmp::Ordering::Greater => "gt",
            };
            format!("{o} {} {} {:?}", x < y, x <= y, x.partial_cmp(&y) == Some(x.cmp(&y)))
        }
        _ => return Err(Fail::Unsup),
    })
}

pub fn ord_usize<A: HC + Ord, const K: usize>(op: &str, a: &KArgs<A>) -> R<String> {
    if K * A::BITS as usize > 64 {
        return Err(Fail::Unsup);
    }
    Ok(match op {
        "minnth" => {
            // jump with nth(n), then min / max / count of what remains
            let x = a.slice.unwrap();
            let (mut i1, mut i2, mut i3) = (x.kmers::<K>(), x.kmers::<K>(), x.kmers::<K>());
            let f = i1.nth(a.n).map(|k| k.bs.to_string()).unwrap_or("none".into());
            let _ = i2.nth(a.n);
            let _ = i3.nth(a.n);
            let mn = i1.min().map(|k| k.bs.to_string()).unwrap_or("none".into());
            let mx = i2.max().map(|k| k.bs.to_string()).unwrap_or("none".into());
            format!("{f} {mn} {mx} {}", i3.count())
        }
        "minafter" => {
            // min / max / count / last of what remains after taking `n` k-mers with next()
            let x = a.slice.unwrap();
            let mut it = x.kmers::<K>();
            for _ in 0..a.n {
                let _ = it.next();
            }
            let mut it2 = x.kmers::<K>();
            for _ in 0..a.n {
                let _ = it2.next();
            }
            let mut it3 = x.kmers::<K>();
            for _ in 0..a.n {
                let _ = it3.next();
            }
            let mn = it.min().map(|k| k.bs.to_string()).unwrap_or("none".into());
            let mx = it2.max().map(|k| k.bs.to_string()).unwrap_or("none".into());
            format!("{mn} {mx} {}", it3.count())
        }
        "minmax" => {
            let x = a.slice.unwrap();
            let mn = x.kmers::<K>().min().map(|k| k.bs.to_string()).unwrap_or("none".into());
            let mx = x.kmers::<K>().max().map(|k| k.bs.to_string()).unwrap_or("none".into());
            let mut v: Vec<Kmer<A, K>> = x.kmers::<K>().collect();
            v.sort();
            let sorted: Vec<String> = v.iter().map(|k| k.bs.to_string()).collect();
            format!("{mn} {mx} {}", if sorted.is_empty() { "-".to_string() } else { sorted.join(",") })
        }
        _ => return Err(Fail::Unsup),
    })
}

pub fn dna_usize<const K: usize>(op: &str, a: &KArgs<Dna>) -> R<String> {
    if K * 2 > 64 {
        return Err(Fail::Unsup);
    }
    let km = mk::<Dna, K, usize>(a.v);
    Ok(match op {
        "comp" => km.to_comp().bs.to_string(),
        "revcomp" => km.to_revcomp().bs.to_string(),
        "compmut" => {
            let mut x = km;
            x.comp();
            x.bs.to_string()
        }
        "revcompmut" => {
            let mut x = km;
            x.revcomp();
            x.bs.to_string()
        }
        "canon" => {
            let rc = km.to_revcomp();
            let c1 = std::cmp::min(km, rc);
            let c2 = std::cmp::min(rc, rc.to_revcomp());
            format!("{} {}", c1.bs, c2.bs)
        }
        _ => return Err(Fail::Unsup),
    })
}

/// `&*Kmer::<A,K>::try_from(x)?` handed to the continuation
pub fn op_kd<A: HC, const K: usize, T>(x: &SeqSlice<A>, k: &mut dyn FnMut(&SeqSlice<A>) -> R<T>) -> R<T> {
    let km: Kmer<A, K> = Kmer::try_from(x)?;
    k(&km)
}

/// `Seq::from(Kmer::<A,K>::try_from(x)?)`
pub fn op_ofkmer<A: HC, const K: usize>(x: &SeqSlice<A>) -> R<Seq<A>> {
    let km: Kmer<A, K> = Kmer::try_from(x)?;
    Ok(Seq::<A>::from(km))
}

/// std adaptors over `KmerIter`
pub fn op_kmers_adapt<A: HC, const K: usize>(ad: &str, arg: usize, x: &SeqSlice<A>) -> R<String> {
    if K * A::BITS as usize > 64 {
        return Err(Fail::Unsup);
    }
    let it = x.kmers::<K>();
    let v: Vec<Kmer<A, K>> = match ad {
        "nth" => { let mut it = it; it.nth(arg).into_iter().collect() }
        "skip" => it.skip(arg).collect(),
        "stepby" => it.step_by(arg.max(1)).collect(),
        "last" => it.last().into_iter().collect(),
        "take" => it.take(arg).collect(),
        "nthnext" => { let mut it = it; let _ = it.nth(arg); it.collect() }
        "count" => return Ok(it.count().to_string()),
        // optional capabilities (DoubleEndedIterator / ExactSizeIterator), probed: see probe.rs
        "rev" | "len" => {
            let mut it = it;
            for _ in 0..arg {
                let _ = it.next();
            }
            if ad == "len" {
                return Ok(crate::probe_len!(it).to_string());
            }
            crate::probe_rev!(it)
        }
        "lastafter" | "countafter" | "foldafter" | "nthhuge" => {
            let mut it = it;
            for _ in 0..arg {
                let _ = it.next();
            }
            match ad {
                "lastafter" => it.last().into_iter().collect(),
                "countafter" => return Ok(it.count().to_string()),
                "foldafter" => {
                    let mut v = vec![];
                    it.for_each(|x| v.push(x));
                    v
                }
                _ => {
                    let first = it.nth(usize::MAX);
                    let mut v: Vec<Kmer<A, K>> = first.into_iter().collect();
                    v.extend(it);
                    v
                }
            }
        }
        "nthcount" | "nthlast" | "nthhint" => {
            let mut it = it;
            let _ = it.nth(arg);
            match ad {
                "nthcount" => return Ok(it.count().to_string()),
                "nthlast" => it.last().into_iter().collect(),
                _ => {
                    let (lo, hi) = it.size_hint();
                    let n = it.count();
                    return Ok(if lo <= n && hi.map_or(true, |h| n <= h) { "1".to_string() } else { "0".to_string() });
                }
            }
        }
        "hint" => {
            let mut it = it;
            for _ in 0..arg {
                let _ = it.next();
            }
            let (lo, hi) = it.size_hint();
            let n = it.count();
            return Ok(if lo <= n && hi.map_or(true, |h| n <= h) { "1".to_string() } else { "0".to_string() });
        }
        _ => vec![],
    };
    let out: Vec<String> = v.iter().map(|k| k.bs.to_string()).collect();
    Ok(if out.is_empty() { "-".to_string() } else { out.join(",") })
}

pub const USIZE_OPS: &[&str] = &["tryseq", "deref", "toseq", "int", "fromint", "fromint64", "cmpint", "rev", "revmut", "eqstr", "eqseq", "iterhash", "kmers"];
pub const DNA_OPS: &[&str] = &["comp", "revcomp", "compmut", "revcompmut", "canon"];
pub const ORD_OPS: &[&str] = &["cmp", "minmax", "minafter", "minnth"];

/// per-codec dispatch over exactly the `K`s that fit (lists by symbol width)
#[macro_export]
macro_rules! kdispatch_impl {
    ([$($k64:literal)*], [$($k128:literal)*], $ord:tt, $dna:tt) => {
        fn kd_dispatch<T>(k: usize, x: &bio_seq::prelude::SeqSlice<Self>, cont: &mut dyn FnMut(&bio_seq::prelude::SeqSlice<Self>) -> $crate::eval::R<T>) -> $crate::eval::R<T> {
            match k { $($k64 => $crate::kmer::op_kd::<Self, $k64, T>(x, cont),)* _ => Err($crate::eval::Fail::Unsup) }
        }
        fn kmers_adapt(k: usize, ad: &str, arg: usize, x: &bio_seq::prelude::SeqSlice<Self>) -> $crate::eval::R<String> {
            match k { $($k64 => $crate::kmer::op_kmers_adapt::<Self, $k64>(ad, arg, x),)* _ => Err($crate::eval::Fail::Unsup) }
        }
        fn ofkmer_dispatch(k: usize, x: &bio_seq::prelude::SeqSlice<Self>) -> $crate::eval::R<bio_seq::prelude::Seq<Self>> {
            match k { $($k64 => $crate::kmer::op_ofkmer::<Self, $k64>(x),)* _ => Err($crate::eval::Fail::Unsup) }
        }
        fn kdispatch(op: &str, k: usize, st: &str, a: &$crate::kmer::KArgs<Self>) -> $crate::eval::R<String> {
            use $crate::kmer::*;
            use $crate::eval::Fail;
            if USIZE_OPS.contains(&op) {
                if st != "usize" { return Err(Fail::Unsup); }
                return match k { $($k64 => op_usize::<Self, $k64>(op, a),)* _ => Err(Fail::Unsup) };
            }
            if DNA_OPS.contains(&op) {
                if st != "usize" { return Err(Fail::Unsup); }
                $crate::kdispatch_impl!(@dna $dna, op, k, a, [$($k64)*]);
            }
            if ORD_OPS.contains(&op) {
                $crate::kdispatch_impl!(@ord $ord, op, k, st, a, [$($k64)*], [$($k128)*]);
            }
            match st {
                "usize" => match k { $($k64 => op_any::<Self, $k64, usize>(op, a),)* _ => Err(Fail::Unsup) },
                "u64" => match k { $($k64 => op_any::<Self, $k64, u64>(op, a),)* _ => Err(Fail::Unsup) },
                "u128" => match k { $($k128 => op_any::<Self, $k128, u128>(op, a),)* _ => Err(Fail::Unsup) },
                _ => Err(Fail::BadOp("storage".into())),
            }
        }
    };
    (@dna yes, $op:ident, $k:ident, $a:ident, [$($k64:literal)*]) => {
        return match $k { $($k64 => dna_usize::<$k64>($op, $a),)* _ => Err(Fail::Unsup) }
    };
    (@dna no, $op:ident, $k:ident, $a:ident, [$($k64:literal)*]) => {
        return Err(Fail::Unsup)
    };
    (@ord yes, $op:ident, $k:ident, $st:ident, $a:ident, [$($k64:literal)*], [$($k128:literal)*]) => {
        if $op == "minmax" || $op == "minafter" || $op == "minnth" {
            if $st != "usize" { return Err(Fail::Unsup); }
            return match $k { $($k64 => ord_usize::<Self, $k64>($op, $a),)* _ => Err(Fail::Unsup) };
        }
        return match $st {
            "usize" => match $k { $($k64 => ord_any::<Self, $k64, usize>($op, $a),)* _ => Err(Fail::Unsup) },
            "u64" => match $k { $($k64 => ord_any::<Self, $k64, u64>($op, $a),)* _ => Err(Fail::Unsup) },
            "u128" => match $k { $($k128 => ord_any::<Self, $k128, u128>($op, $a),)* _ => Err(Fail::Unsup) },
            _ => Err(Fail::BadOp("storage".into())),
        }
    };
    (@ord no, $op:ident, $k:ident, $st:ident, $a:ident, [$($k64:literal)*], [$($k128:literal)*]) => {
        return Err(Fail::Unsup)
    };
}

pub fn query<A: HC>(q: &str, t: &mut Toks) -> R<String> {
    match q {
        "kmers" => {
            let k = t.num()?;
            let s = parse_s(t)?;
            eval_s::<A, _>(&s, &mut |x| {
                let a = KArgs::<A> { v: 0, v2: 0, n: 0, text: String::new(), pairing: String::new(), slice: Some(x), seq: None };
                A::kdispatch("kmers", k, "usize", &a)
            })
        }
        "kmer" => {
            let op = t.next()?.to_string();
            let k = t.num()?;
            let st = t.next()?.to_string();
            let mut a = KArgs::<A> { v: 0, v2: 0, n: 0, text: String::new(), pairing: String::new(), slice: None, seq: None };
            let utf8 = |h: Vec<u8>| String::from_utf8(h).map_err(|_| Fail::BadOp("utf8".into()));
            match op.as_str() {
                "minafter" | "minnth" => {
                    let n = t.num()?;
                    let s = parse_s(t)?;
                    return eval_s::<A, _>(&s, &mut |x| {
                        let a = KArgs::<A> { v: 0, v2: 0, n, text: String::new(), pairing: String::new(), slice: Some(x), seq: None };
                        A::kdispatch(&op, k, &st, &a)
                    });
                }
                "try" | "unsafefrom" | "iterhash" | "minmax" => {
                    let s = parse_s(t)?;
                    return eval_s::<A, _>(&s, &mut |x| {
                        let a = KArgs::<A> { v: 0, v2: 0, n: 0, text: String::new(), pairing: String::new(), slice: Some(x), seq: None };
                        A::kdispatch(&op, k, &st, &a)
                    });
                }
                "hasheq" => {
                    a.v = val(t)?;
                    let s = parse_s(t)?;
                    return eval_s::<A, _>(&s, &mut |x| {
                        let a2 = KArgs::<A> { v: a.v, v2: 0, n: 0, text: String::new(), pairing: String::new(), slice: Some(x), seq: None };
                        A::kdispatch(&op, k, &st, &a2)
                    });
                }
                "eq" => {
                    a.pairing = t.next()?.to_string();
                    a.v = val(t)?;
                    let s = parse_s(t)?;
                    return eval_s::<A, _>(&s, &mut |x| {
                        let a2 = KArgs::<A> { v: a.v, v2: 0, n: 0, text: String::new(), pairing: a.pairing.clone(), slice: Some(x), seq: None };
                        A::kdispatch(&op, k, &st, &a2)
                    });
                }
                "tryseq" => a.seq = Some(eval_v::<A>(&parse_v(t)?)?),
                "fromstr" => a.text = utf8(t.hex()?)?,
                "rotl" | "rotr" | "pushl" | "pushr" => {
                    a.v = val(t)?;
                    a.n = t.num()?;
                }
                "eqk" | "cmp" | "cmpint" => {
                    a.v = val(t)?;
                    a.v2 = val(t)?;
                }
                "eqstr" => {
                    a.v = val(t)?;
                    a.text = utf8(t.hex()?)?;
                }
                "eqseq" => {
                    a.v = val(t)?;
                    a.seq = Some(eval_v::<A>(&parse_v(t)?)?);
                }
                _ => a.v = val(t)?,
            }
            A::kdispatch(&op, k, &st, &a)
        }
        _ => crate::misc::query::<A>(q, t),
    }
}
