//! Optional-capability probes (autoref specialisation): trait impls that the unchanged crate does not have but
//! that a later version may add (`sequence == Kmer`, `DoubleEndedIterator` / `ExactSizeIterator` for the crate's
//! iterators).  When the impl exists it is used; when it does not, the answer is computed through the impls that
//! do exist, so the protocol line has the same meaning in every tree: "whichever spelling compiles agrees".
use std::cell::RefCell;

pub struct EqProbe<'a, L: ?Sized, R: ?Sized, F: Fn() -> bool>(pub &'a L, pub &'a R, pub F);

pub trait EqIfImpl {
    fn eq_probe(&self) -> bool;
}
impl<L: ?Sized + PartialEq<R>, R: ?Sized, F: Fn() -> bool> EqIfImpl for EqProbe<'_, L, R, F> {
    fn eq_probe(&self) -> bool {
        *self.0 == *self.1 && !(*self.0 != *self.1)
    }
}
pub trait EqFallback {
    fn eq_probe(&self) -> bool;
}
impl<L: ?Sized, R: ?Sized, F: Fn() -> bool> EqFallback for &EqProbe<'_, L, R, F> {
    fn eq_probe(&self) -> bool {
        (self.2)()
    }
}

/// `probe_eq!(left, right, || fallback)`: `*left == *right` when `Left: PartialEq<Right>` exists, else the fallback
#[macro_export]
macro_rules! probe_eq {
    ($l:expr, $r:expr, $fb:expr) => {{
        #[allow(unused_imports)]
        use $crate::probe::{EqFallback, EqIfImpl};
        (&$crate::probe::EqProbe($l, $r, $fb)).eq_probe()
    }};
}

pub struct IterProbe<I>(pub RefCell<Option<I>>);

pub trait RevIfImpl {
    type Item;
    fn rev_collect(&self) -> Vec<Self::Item>;
}
impl<I: DoubleEndedIterator> RevIfImpl for IterProbe<I> {
    type Item = I::Item;
    fn rev_collect(&self) -> Vec<I::Item> {
        self.0.borrow_mut().take().unwrap().rev().collect()
    }
}
pub trait RevFallback {
    type Item;
    fn rev_collect(&self) -> Vec<Self::Item>;
}
impl<I: Iterator> RevFallback for &IterProbe<I> {
    type Item = I::Item;
    fn rev_collect(&self) -> Vec<I::Item> {
        let mut v: Vec<I::Item> = self.0.borrow_mut().take().unwrap().collect();
        v.reverse();
        v
    }
}

pub trait LenIfImpl {
    fn len_probe(&self) -> usize;
}
impl<I: ExactSizeIterator> LenIfImpl for IterProbe<I> {
    fn len_probe(&self) -> usize {
        let it = self.0.borrow_mut().take().unwrap();
        let n = it.len();
        // the contract of ExactSizeIterator: len() is the number of items actually yielded
        let c = it.count();
        if n == c { n } else { usize::MAX }
    }
}
pub trait LenFallback {
    fn len_probe(&self) -> usize;
}
impl<I: Iterator> LenFallback for &IterProbe<I> {
    fn len_probe(&self) -> usize {
        self.0.borrow_mut().take().unwrap().count()
    }
}

#[macro_export]
macro_rules! probe_rev {
    ($it:expr) => {{
        #[allow(unused_imports)]
        use $crate::probe::{RevFallback, RevIfImpl};
        (&$crate::probe::IterProbe(std::cell::RefCell::new(Some($it)))).rev_collect()
    }};
}
#[macro_export]
macro_rules! probe_len {
    ($it:expr) => {{
        #[allow(unused_imports)]
        use $crate::probe::{LenFallback, LenIfImpl};
        (&$crate::probe::IterProbe(std::cell::RefCell::new(Some($it)))).len_probe()
    }};
}
