//! pool of pre-compiled `dna!` / `iupac!` literals (filled in by the C16 machinery)
use crate::hc::HC;
use bio_seq::prelude::*;

pub fn lit<A: HC>(_id: usize) -> Option<&'static SeqSlice<A>> {
    None
}
