//! Harness-side view of the seven built-in codecs: one trait so that the
//! evaluator can be generic, with the operations that only exist for some
//! codecs (complement, masking, ordering) surfaced as `Option`.
use bio_seq::codec::{degenerate, masked, text};
use bio_seq::prelude::*;
use std::cmp::Ordering;

pub trait HC: Codec + 'static + std::panic::RefUnwindSafe + std::panic::UnwindSafe {
    const NAME: &'static str;
    const HAS_COMP: bool;
    const HAS_MASK: bool;
    const HAS_ORD: bool;
    fn sym_comp(_s: Self) -> Option<Self> {
        None
    }
    fn sym_mask(_s: Self) -> Option<Self> {
        None
    }
    fn sym_unmask(_s: Self) -> Option<Self> {
        None
    }
    /// the copying symbol-level forms (`Maskable::to_mask` / `to_unmask`, `Complement::to_comp`) where the codec has them
    fn sym_to_forms(_s: Self) -> String {
        "-".to_string()
    }
    // in-place forms on an owned sequence
    fn seq_comp(_s: &mut Seq<Self>) -> bool {
        false
    }
    fn seq_revcomp(_s: &mut Seq<Self>) -> bool {
        false
    }
    fn seq_mask(_s: &mut Seq<Self>) -> bool {
        false
    }
    fn seq_unmask(_s: &mut Seq<Self>) -> bool {
        false
    }
    // copying forms
    fn slice_to_comp(_s: &SeqSlice<Self>) -> Option<Seq<Self>> {
        None
    }
    fn slice_to_revcomp(_s: &SeqSlice<Self>) -> Option<Seq<Self>> {
        None
    }
    fn seq_to_comp(_s: &Seq<Self>) -> Option<Seq<Self>> {
        None
    }
    fn seq_to_revcomp(_s: &Seq<Self>) -> Option<Seq<Self>> {
        None
    }
    fn seq_to_mask(_s: &Seq<Self>) -> Option<Seq<Self>> {
        None
    }
    fn seq_to_unmask(_s: &Seq<Self>) -> Option<Seq<Self>> {
        None
    }
    fn seq_cmp(_a: &Seq<Self>, _b: &Seq<Self>) -> Option<Ordering> {
        None
    }
    fn sym_cmp(_a: Self, _b: Self) -> Option<Ordering> {
        None
    }
    /// the codec's functions called on the CONCRETE type (inherent items of the type take precedence over the trait's)
    fn sym_concrete(s: Self, b: u8) -> String;
    /// hand-built `SeqArray<Self, N, W>` holding the content of `x` (N = x.len(), W = words needed), passed on through Deref
    fn arr_dispatch<T>(x: &SeqSlice<Self>, cont: &mut dyn FnMut(&SeqSlice<Self>) -> crate::eval::R<T>) -> crate::eval::R<T>;
    /// `Seq::<Self>::from(&SeqArray)` / `Seq::<Self>::from(SeqArray)`
    fn fromarr_dispatch(byval: bool, x: &SeqSlice<Self>) -> crate::eval::R<Seq<Self>>;
    /// `From<Vec<usize>> for Seq<text::Dna>` (only that codec has it)
    fn seq_from_vec_usize(_ws: Vec<usize>) -> Option<Seq<Self>> {
        None
    }
    /// every comparison entry point of `Seq`: Ord::cmp, PartialOrd::partial_cmp, the four operators, Ord::max / Ord::min
    fn seq_cmpall(_a: &Seq<Self>, _b: &Seq<Self>) -> Option<String> {
        None
    }
    fn kdispatch(op: &str, k: usize, st: &str, a: &crate::kmer::KArgs<Self>) -> crate::eval::R<String>;
    fn kd_dispatch<T>(k: usize, x: &SeqSlice<Self>, cont: &mut dyn FnMut(&SeqSlice<Self>) -> crate::eval::R<T>) -> crate::eval::R<T>;
    fn ofkmer_dispatch(k: usize, x: &SeqSlice<Self>) -> crate::eval::R<Seq<Self>>;
    fn kmers_adapt(k: usize, ad: &str, arg: usize, x: &SeqSlice<Self>) -> crate::eval::R<String>;
}

/// build `SeqArray<A, N, W>` from the first `N` symbols' bits of `x` (public fields, as a user could)
pub fn make_arr<A: HC, const N: usize, const W: usize>(x: &SeqSlice<A>) -> SeqArray<A, N, W> {
    use bitvec::prelude::*;
    let own: Seq<A> = x.to_owned();
    let raw = own.into_raw();
    let mut ba: BitArray<[usize; W], Lsb0> = BitArray::ZERO;
    for (i, w) in ba.as_raw_mut_slice().iter_mut().enumerate() {
        *w = raw.get(i).copied().unwrap_or(0);
    }
    SeqArray { _p: core::marker::PhantomData, ba }
}

/// lengths for which hand-built arrays are instantiated
#[macro_export]
macro_rules! arr_methods {
    ($ty:ty) => {
        $crate::arr_methods!(@go $ty; 1 2 3 4 5 8 10 11 12 13 15 16 17 21 31 32 33 48 63 64 65 96 128);
    };
    (@go $ty:ty; $($n:literal)*) => {
        fn sym_concrete(s: Self, b: u8) -> String {
            let s: $ty = s;
            let o = |x: Option<$ty>| x.map(|y| format!("{:02x}", y.to_bits())).unwrap_or("none".into());
            let items: Vec<String> = <$ty>::items().map(|y| format!("{:02x}", y.to_bits())).collect();
            format!("{:02x} {:02x} {} {} {}", s.to_char() as u32, s.to_bits(), o(<$ty>::try_from_bits(b)), o(<$ty>::try_from_ascii(b)), items.concat())
        }
        fn arr_dispatch<T>(x: &SeqSlice<Self>, cont: &mut dyn FnMut(&SeqSlice<Self>) -> $crate::eval::R<T>) -> $crate::eval::R<T> {
            match x.len() {
                $($n => {
                    const W: usize = ($n * <$ty as Codec>::BITS as usize + 63) / 64;
                    let arr = $crate::hc::make_arr::<$ty, $n, W>(x);
                    let viaref: &SeqSlice<$ty> = arr.as_ref();
                    if $crate::eval::content(viaref) != $crate::eval::content(&arr) {
                        return Err($crate::eval::Fail::BadOp("asref-differs-from-deref".into()));
                    }
                    cont(&arr)
                })*
                _ => Err($crate::eval::Fail::Unsup),
            }
        }
        fn fromarr_dispatch(byval: bool, x: &SeqSlice<Self>) -> $crate::eval::R<Seq<Self>> {
            match x.len() {
                $($n => {
                    const W: usize = ($n * <$ty as Codec>::BITS as usize + 63) / 64;
                    let arr = $crate::hc::make_arr::<$ty, $n, W>(x);
                    Ok(if byval { Seq::<$ty>::from(arr) } else { Seq::<$ty>::from(&arr) })
                })*
                _ => Err($crate::eval::Fail::Unsup),
            }
        }
    };
}

macro_rules! comp_methods {
    () => {
        fn seq_comp(s: &mut Seq<Self>) -> bool {
            s.comp();
            true
        }
        fn seq_revcomp(s: &mut Seq<Self>) -> bool {
            s.revcomp();
            true
        }
        fn slice_to_comp(s: &SeqSlice<Self>) -> Option<Seq<Self>> {
            Some(s.to_comp())
        }
        fn slice_to_revcomp(s: &SeqSlice<Self>) -> Option<Seq<Self>> {
            Some(s.to_revcomp())
        }
        fn seq_to_comp(s: &Seq<Self>) -> Option<Seq<Self>> {
            Some(s.to_comp())
        }
        fn seq_to_revcomp(s: &Seq<Self>) -> Option<Seq<Self>> {
            Some(s.to_revcomp())
        }
        fn sym_comp(s: Self) -> Option<Self> {
            let mut x = s;
            x.comp();
            Some(x)
        }
    };
}

macro_rules! mask_methods {
    () => {
        fn seq_mask(s: &mut Seq<Self>) -> bool {
            s.mask();
            true
        }
        fn seq_unmask(s: &mut Seq<Self>) -> bool {
            s.unmask();
            true
        }
        fn seq_to_mask(s: &Seq<Self>) -> Option<Seq<Self>> {
            Some(s.to_mask())
        }
        fn seq_to_unmask(s: &Seq<Self>) -> Option<Seq<Self>> {
            Some(s.to_unmask())
        }
        fn sym_mask(s: Self) -> Option<Self> {
            let mut x = s;
            x.mask();
            Some(x)
        }
        fn sym_unmask(s: Self) -> Option<Self> {
            let mut x = s;
            x.unmask();
            Some(x)
        }
    };
}

macro_rules! ord_methods {
    () => {
        fn seq_cmp(a: &Seq<Self>, b: &Seq<Self>) -> Option<Ordering> {
            Some(a.cmp(b))
        }
        fn sym_cmp(a: Self, b: Self) -> Option<Ordering> {
            Some(a.cmp(&b))
        }
        fn seq_cmpall(a: &Seq<Self>, b: &Seq<Self>) -> Option<String> {
            let o = |x: Ordering| match x {
                Ordering::Less => "lt",
                Ordering::Equal => "eq",
                Ordering::Greater => "gt",
            };
            Some(format!(
                "{} {} {} {} {} {} {} {}",
                o(a.cmp(b)),
                a.partial_cmp(b).map(o).unwrap_or("none"),
                a < b,
                a <= b,
                a > b,
                a >= b,
                crate::eval::content(&Ord::max(a.clone(), b.clone())),
                crate::eval::content(&Ord::min(a.clone(), b.clone()))
            ))
        }
    };
}

impl HC for Dna {
    crate::arr_methods!(Dna);
    fn sym_to_forms(s: Self) -> String {
        format!("{:02x}", s.to_comp().to_bits())
    }
    const NAME: &'static str = "dna";
    const HAS_COMP: bool = true;
    const HAS_MASK: bool = false;
    const HAS_ORD: bool = true;
    comp_methods!();
    ord_methods!();
    crate::kdispatch_impl!([1 2 3 4 5 6 7 8 9 10 11 12 13 14 15 16 17 18 19 20 21 22 23 24 25 26 27 28 29 30 31 32], [1 2 3 4 5 6 7 8 9 10 11 12 13 14 15 16 17 18 19 20 21 22 23 24 25 26 27 28 29 30 31 32 33 34 35 36 37 38 39 40 41 42 43 44 45 46 47 48 49 50 51 52 53 54 55 56 57 58 59 60 61 62 63 64], yes, yes);
}

impl HC for Iupac {
    crate::arr_methods!(Iupac);
    fn sym_to_forms(s: Self) -> String {
        // copying complement; `From<Iupac> for u8`
        format!("{:02x}{:02x}", s.to_comp().to_bits(), u8::from(s))
    }
    const NAME: &'static str = "iupac";
    const HAS_COMP: bool = true;
    const HAS_MASK: bool = false;
    const HAS_ORD: bool = false;
    comp_methods!();
    crate::kdispatch_impl!([1 2 3 4 5 6 7 8 9 10 11 12 13 14 15 16], [1 2 3 4 5 6 7 8 9 10 11 12 13 14 15 16 17 18 19 20 21 22 23 24 25 26 27 28 29 30 31 32], no, no);
}

impl HC for Amino {
    crate::arr_methods!(Amino);
    fn sym_to_forms(s: Self) -> String {
        // `From<Amino> for u8`; `Display for Amino`
        let d = format!("{s}");
        format!("{:02x}{}", u8::from(s), crate::ast::hex(d.as_bytes()))
    }
    const NAME: &'static str = "amino";
    const HAS_COMP: bool = false;
    const HAS_MASK: bool = false;
    const HAS_ORD: bool = false;
    crate::kdispatch_impl!([1 2 3 4 5 6 7 8 9 10], [1 2 3 4 5 6 7 8 9 10 11 12 13 14 15 16 17 18 19 20 21], no, no);
}

impl HC for text::Dna {
    crate::arr_methods!(text::Dna);
    fn sym_to_forms(s: Self) -> String {
        // `From<text::Dna> for u8`
        format!("{:02x}", u8::from(s))
    }
    fn seq_from_vec_usize(ws: Vec<usize>) -> Option<Seq<Self>> {
        Some(Seq::<text::Dna>::from(ws))
    }
    const NAME: &'static str = "text";
    const HAS_COMP: bool = false;
    const HAS_MASK: bool = false;
    const HAS_ORD: bool = true;
    ord_methods!();
    crate::kdispatch_impl!([1 2 3 4 5 6 7 8], [1 2 3 4 5 6 7 8 9 10 11 12 13 14 15 16], yes, no);
}

impl HC for masked::Dna {
    crate::arr_methods!(masked::Dna);
    fn sym_to_forms(s: Self) -> String {
        format!("{:02x}", s.to_comp().to_bits())
    }
    const NAME: &'static str = "mdna";
    const HAS_COMP: bool = true;
    const HAS_MASK: bool = true;
    const HAS_ORD: bool = true;
    comp_methods!();
    mask_methods!();
    ord_methods!();
    crate::kdispatch_impl!([1 2 3 4 5 6 7 8 9 10 11 12 13 14 15 16], [1 2 3 4 5 6 7 8 9 10 11 12 13 14 15 16 17 18 19 20 21 22 23 24 25 26 27 28 29 30 31 32], yes, no);
}

impl HC for masked::Iupac {
    crate::arr_methods!(masked::Iupac);
    fn sym_to_forms(s: Self) -> String {
        format!("{:02x}{:02x}", s.to_mask().to_bits(), s.to_unmask().to_bits())
    }
    const NAME: &'static str = "miupac";
    const HAS_COMP: bool = true;
    const HAS_MASK: bool = true;
    const HAS_ORD: bool = true;
    comp_methods!();
    mask_methods!();
    ord_methods!();
    crate::kdispatch_impl!([1 2 3 4 5 6 7 8 9 10 11 12], [1 2 3 4 5 6 7 8 9 10 11 12 13 14 15 16 17 18 19 20 21 22 23 24 25], yes, no);
}

impl HC for degenerate::Dna {
    crate::arr_methods!(degenerate::Dna);
    const NAME: &'static str = "deg";
    const HAS_COMP: bool = true;
    const HAS_MASK: bool = false;
    const HAS_ORD: bool = true;
    comp_methods!();
    ord_methods!();
    crate::kdispatch_impl!([1 2 3 4 5 6 7 8 9 10 11 12 13 14 15 16 17 18 19 20 21 22 23 24 25 26 27 28 29 30 31 32 33 34 35 36 37 38 39 40 41 42 43 44 45 46 47 48 49 50 51 52 53 54 55 56 57 58 59 60 61 62 63 64], [1 2 3 4 5 6 7 8 9 10 11 12 13 14 15 16 17 18 19 20 21 22 23 24 25 26 27 28 29 30 31 32 33 34 35 36 37 38 39 40 41 42 43 44 45 46 47 48 49 50 51 52 53 54 55 56 57 58 59 60 61 62 63 64 65 66 67 68 69 70 71 72 73 74 75 76 77 78 79 80 81 82 83 84 85 86 87 88 89 90 91 92 93 94 95 96 97 98 99 100 101 102 103 104 105 106 107 108 109 110 111 112 113 114 115 116 117 118 119 120 121 122 123 124 125 126 127 128], yes, no);
}

/// run `f` for the codec named `name`
#[macro_export]
macro_rules! with_codec {
    ($name:expr, $A:ident => $body:expr, $else:expr) => {
        match $name {
            "dna" => {
                type $A = bio_seq::codec::dna::Dna;
                $body
            }
            "iupac" => {
                type $A = bio_seq::codec::iupac::Iupac;
                $body
            }
            "amino" => {
                type $A = bio_seq::codec::amino::Amino;
                $body
            }
            "text" => {
                type $A = bio_seq::codec::text::Dna;
                $body
            }
            "mdna" => {
                type $A = bio_seq::codec::masked::Dna;
                $body
            }
            "miupac" => {
                type $A = bio_seq::codec::masked::Iupac;
                $body
            }
            "deg" => {
                type $A = bio_seq::codec::degenerate::Dna;
                $body
            }
            _ => $else,
        }
    };
}
