//! Harness-side view of the seven built-in codecs: one trait so that the
//! evaluator can be generic, with the operations that only exist for some
//! codecs (complement, masking, ordering) surfaced as `Option`.
use bio_seq::codec::{degenerate, masked, text};
use bio_seq::prelude::*;
use std::cmp::Ordering;

pub trait HC: Codec + 'static + std::panic::RefUnwindSafe + std::panic::UnwindSafe {
    const NAME: &'static str;
    const HAS_COMP: bool;
    const HAS_MASK: bool;
    const HAS_ORD: bool;
    fn sym_comp(_s: Self) -> Option<Self> {
        None
    }
    fn sym_mask(_s: Self) -> Option<Self> {
        None
    }
    fn sym_unmask(_s: Self) -> Option<Self> {
        None
    }
    // in-place forms on an owned sequence
    fn seq_comp(_s: &mut Seq<Self>) -> bool {
        false
    }
    fn seq_revcomp(_s: &mut Seq<Self>) -> bool {
        false
    }
    fn seq_mask(_s: &mut Seq<Self>) -> bool {
        false
    }
    fn seq_unmask(_s: &mut Seq<Self>) -> bool {
        false
    }
    // copying forms
    fn slice_to_comp(_s: &SeqSlice<Self>) -> Option<Seq<Self>> {
        None
    }
    fn slice_to_revcomp(_s: &SeqSlice<Self>) -> Option<Seq<Self>> {
        None
    }
    fn seq_to_comp(_s: &Seq<Self>) -> Option<Seq<Self>> {
        None
    }
    fn seq_to_revcomp(_s: &Seq<Self>) -> Option<Seq<Self>> {
        None
    }
    fn seq_to_mask(_s: &Seq<Self>) -> Option<Seq<Self>> {
        None
    }
    fn seq_to_unmask(_s: &Seq<Self>) -> Option<Seq<Self>> {
        None
    }
    fn seq_cmp(_a: &Seq<Self>, _b: &Seq<Self>) -> Option<Ordering> {
        None
    }
    fn sym_cmp(_a: Self, _b: Self) -> Option<Ordering> {
        None
    }
    fn kmer_special(_op: &str, _k: usize, _st: &str, _t: &mut crate::ast::Toks) -> crate::eval::R<String> {
        Err(crate::eval::Fail::Unsup)
    }
}

macro_rules! comp_methods {
    () => {
        fn seq_comp(s: &mut Seq<Self>) -> bool {
            s.comp();
            true
        }
        fn seq_revcomp(s: &mut Seq<Self>) -> bool {
            s.revcomp();
            true
        }
        fn slice_to_comp(s: &SeqSlice<Self>) -> Option<Seq<Self>> {
            Some(s.to_comp())
        }
        fn slice_to_revcomp(s: &SeqSlice<Self>) -> Option<Seq<Self>> {
            Some(s.to_revcomp())
        }
        fn seq_to_comp(s: &Seq<Self>) -> Option<Seq<Self>> {
            Some(s.to_comp())
        }
        fn seq_to_revcomp(s: &Seq<Self>) -> Option<Seq<Self>> {
            Some(s.to_revcomp())
        }
        fn sym_comp(s: Self) -> Option<Self> {
            let mut x = s;
            x.comp();
            Some(x)
        }
    };
}

macro_rules! mask_methods {
    () => {
        fn seq_mask(s: &mut Seq<Self>) -> bool {
            s.mask();
            true
        }
        fn seq_unmask(s: &mut Seq<Self>) -> bool {
            s.unmask();
            true
        }
        fn seq_to_mask(s: &Seq<Self>) -> Option<Seq<Self>> {
            Some(s.to_mask())
        }
        fn seq_to_unmask(s: &Seq<Self>) -> Option<Seq<Self>> {
            Some(s.to_unmask())
        }
        fn sym_mask(s: Self) -> Option<Self> {
            let mut x = s;
            x.mask();
            Some(x)
        }
        fn sym_unmask(s: Self) -> Option<Self> {
            let mut x = s;
            x.unmask();
            Some(x)
        }
    };
}

macro_rules! ord_methods {
    () => {
        fn seq_cmp(a: &Seq<Self>, b: &Seq<Self>) -> Option<Ordering> {
            Some(a.cmp(b))
        }
        fn sym_cmp(a: Self, b: Self) -> Option<Ordering> {
            Some(a.cmp(&b))
        }
    };
}

macro_rules! ord_kmer {
    () => {
        fn kmer_special(op: &str, k: usize, st: &str, t: &mut crate::ast::Toks) -> crate::eval::R<String> {
            crate::kmer::special_ord::<Self>(op, k, st, t)
        }
    };
}

impl HC for Dna {
    const NAME: &'static str = "dna";
    const HAS_COMP: bool = true;
    const HAS_MASK: bool = false;
    const HAS_ORD: bool = true;
    comp_methods!();
    ord_methods!();
    fn kmer_special(op: &str, k: usize, st: &str, t: &mut crate::ast::Toks) -> crate::eval::R<String> {
        match op {
            "comp" | "revcomp" | "compmut" | "revcompmut" | "canon" => crate::kmer::special_dna(op, k, st, t),
            _ => crate::kmer::special_ord::<Self>(op, k, st, t),
        }
    }
}

impl HC for Iupac {
    const NAME: &'static str = "iupac";
    const HAS_COMP: bool = true;
    const HAS_MASK: bool = false;
    const HAS_ORD: bool = false;
    comp_methods!();
}

impl HC for Amino {
    const NAME: &'static str = "amino";
    const HAS_COMP: bool = false;
    const HAS_MASK: bool = false;
    const HAS_ORD: bool = false;
}

impl HC for text::Dna {
    const NAME: &'static str = "text";
    const HAS_COMP: bool = false;
    const HAS_MASK: bool = false;
    const HAS_ORD: bool = true;
    ord_methods!();
    ord_kmer!();
}

impl HC for masked::Dna {
    const NAME: &'static str = "mdna";
    const HAS_COMP: bool = true;
    const HAS_MASK: bool = true;
    const HAS_ORD: bool = true;
    comp_methods!();
    mask_methods!();
    ord_methods!();
    ord_kmer!();
}

impl HC for masked::Iupac {
    const NAME: &'static str = "miupac";
    const HAS_COMP: bool = true;
    const HAS_MASK: bool = true;
    const HAS_ORD: bool = true;
    comp_methods!();
    mask_methods!();
    ord_methods!();
    ord_kmer!();
}

impl HC for degenerate::Dna {
    const NAME: &'static str = "deg";
    const HAS_COMP: bool = true;
    const HAS_MASK: bool = false;
    const HAS_ORD: bool = true;
    comp_methods!();
    ord_methods!();
    ord_kmer!();
}

/// run `f` for the codec named `name`
#[macro_export]
macro_rules! with_codec {
    ($name:expr, $A:ident => $body:expr, $else:expr) => {
        match $name {
            "dna" => {
                type $A = bio_seq::codec::dna::Dna;
                $body
            }
            "iupac" => {
                type $A = bio_seq::codec::iupac::Iupac;
                $body
            }
            "amino" => {
                type $A = bio_seq::codec::amino::Amino;
                $body
            }
            "text" => {
                type $A = bio_seq::codec::text::Dna;
                $body
            }
            "mdna" => {
                type $A = bio_seq::codec::masked::Dna;
                $body
            }
            "miupac" => {
                type $A = bio_seq::codec::masked::Iupac;
                $body
            }
            "deg" => {
                type $A = bio_seq::codec::degenerate::Dna;
                $body
            }
            _ => $else,
        }
    };
}
