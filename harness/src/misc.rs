//! remaining queries: conversions, translation, codon tables, serde, macros, derive
use crate::ast::*;
use crate::eval::*;
use crate::hc::HC;

pub fn query<A: HC>(q: &str, _t: &mut Toks) -> R<String> {
    Err(Fail::BadOp(format!("unknown query {q}")))
}
