//! remaining queries: symbol tables, conversions, translation, codon tables, serde, macros, derive
use crate::ast::*;
use crate::eval::*;
use crate::hc::HC;
use bio_seq::prelude::*;
use std::panic::catch_unwind;

fn osym<A: HC>(f: impl FnOnce() -> Option<A> + std::panic::UnwindSafe) -> String {
    match catch_unwind(f) {
        Ok(Some(s)) => format!("{:02x}", s.to_bits()),
        Ok(None) => "none".into(),
        Err(_) => "panic".into(),
    }
}

/// the symbol whose canonical code is `code`, if any decoder or `items()` can produce it
pub fn symbol_with_code<A: HC>(code: u8) -> Option<A> {
    for s in A::items() {
        if s.to_bits() == code {
            return Some(s);
        }
    }
    for b in 0..=255u8 {
        for s in [
            catch_unwind(move || A::try_from_bits(b)).ok().flatten(),
            catch_unwind(move || A::unsafe_from_bits(b)).ok(),
            catch_unwind(move || A::try_from_ascii(b)).ok().flatten(),
            catch_unwind(move || A::unsafe_from_ascii(b)).ok(),
        ]
        .into_iter()
        .flatten()
        {
            if s.to_bits() == code {
                return Some(s);
            }
        }
    }
    None
}

pub fn query<A: HC>(q: &str, t: &mut Toks) -> R<String> {
    Ok(match q {
        "sym" => {
            let b = t.num()? as u8;
            let sym = symbol_with_code::<A>(b);
            let ch = sym.map(|s| s.to_char() as u32).unwrap_or(0);
            let un = |f: fn(A) -> Option<A>, has: bool| -> String {
                match sym {
                    Some(s) if has => osym::<A>(move || f(s)),
                    _ => "none".into(),
                }
            };
            format!(
                "{} {} {} {} {} {} {} {} {}",
                A::BITS,
                osym::<A>(move || A::try_from_bits(b)),
                osym::<A>(move || Some(A::unsafe_from_bits(b))),
                osym::<A>(move || A::try_from_ascii(b)),
                osym::<A>(move || Some(A::unsafe_from_ascii(b))),
                ch,
                un(A::sym_comp, A::HAS_COMP),
                un(A::sym_mask, A::HAS_MASK),
                un(A::sym_unmask, A::HAS_MASK),
            )
        }
        "items" => {
            let v: Vec<String> = A::items().map(|s| format!("{:02x}", s.to_bits())).collect();
            v.concat()
        }
        "altcode" => {
            // known finding D11: content holding a non-canonical (alternative) code
            let v = eval_v::<A>(&parse_v(t)?)?;
            let text = v.to_string();
            let reparsed = Seq::<A>::from_str(&text)?;
            format!(
                "{} {} {} {}",
                content(&v),
                *v == text.as_str(),
                v == reparsed,
                hash_events(&v) == hash_events(&reparsed)
            )
        }
        _ => return Err(Fail::BadOp(format!("unknown query {q}"))),
    })
}
