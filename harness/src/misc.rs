//! remaining queries: symbol tables, conversions, translation, codon tables, serde, macros, derive
use crate::ast::*;
use crate::eval::*;
use crate::hc::HC;
use bio_seq::prelude::*;
use std::panic::catch_unwind;

fn osym<A: HC>(f: impl FnOnce() -> Option<A> + std::panic::UnwindSafe) -> String {
    match catch_unwind(f) {
        Ok(Some(s)) => format!("{:02x}", s.to_bits()),
        Ok(None) => "none".into(),
        Err(_) => "panic".into(),
    }
}

/// the symbol whose canonical code is `code`, if any decoder or `items()` can produce it
pub fn symbol_with_code<A: HC>(code: u8) -> Option<A> {
    for s in A::items() {
        if s.to_bits() == code {
            return Some(s);
        }
    }
    for b in 0..=255u8 {
        for s in [
            catch_unwind(move || A::try_from_bits(b)).ok().flatten(),
            catch_unwind(move || A::unsafe_from_bits(b)).ok(),
            catch_unwind(move || A::try_from_ascii(b)).ok().flatten(),
            catch_unwind(move || A::unsafe_from_ascii(b)).ok(),
        ]
        .into_iter()
        .flatten()
        {
            if s.to_bits() == code {
                return Some(s);
            }
        }
    }
    None
}

fn iupac_arr_contains(x: &SeqSlice<Iupac>, y: &SeqSlice<Iupac>) -> R<String> {
    macro_rules! go {
        ($($n:literal)*) => {
            match x.len() {
                $($n => {
                    const W: usize = ($n * 4 + 63) / 64;
                    let arr = crate::hc::make_arr::<Iupac, $n, W>(x);
                    Ok(format!("{}", arr.contains(y)))
                })*
                _ => Err(Fail::Unsup),
            }
        };
    }
    go!(1 2 3 4 5 8 10 11 12 13 15 16 17 21 31 32 33 48 63 64 65 96 128)
}

fn dna_convarr(target: &str, byval: bool, x: &SeqSlice<Dna>) -> R<String> {
    macro_rules! go {
        ($($n:literal)*) => {
            match x.len() {
                $($n => {
                    const W: usize = ($n * 2 + 63) / 64;
                    let arr = crate::hc::make_arr::<Dna, $n, W>(x);
                    match target {
                        "iupac" => Ok(show(&if byval { Seq::<Iupac>::from(arr) } else { Seq::<Iupac>::from(&arr) })),
                        "text" => Ok(show(&if byval { Seq::<text::Dna>::from(arr) } else { Seq::<text::Dna>::from(&arr) })),
                        _ => Err(Fail::BadOp("conv target".into())),
                    }
                })*
                _ => Err(Fail::Unsup),
            }
        };
    }
    go!(1 2 3 4 5 8 10 11 12 13 15 16 17 21 31 32 33 48 63 64 65 96 128)
}

pub fn query<A: HC>(q: &str, t: &mut Toks) -> R<String> {
    Ok(match q {
        "sym" => {
            let b = t.num()? as u8;
            let sym = symbol_with_code::<A>(b);
            let ch = sym.map(|s| s.to_char() as u32).unwrap_or(0);
            let un = |f: fn(A) -> Option<A>, has: bool| -> String {
                match sym {
                    Some(s) if has => osym::<A>(move || f(s)),
                    _ => "none".into(),
                }
            };
            let forms = match sym {
                Some(s) => match catch_unwind(move || A::sym_to_forms(s)) {
                    Ok(f) => f,
                    Err(_) => "panic".to_string(),
                },
                None => "-".to_string(),
            };
            let conc = match sym {
                Some(s) => match catch_unwind(move || A::sym_concrete(s, b)) {
                    Ok(f) => f,
                    Err(_) => "panic".to_string(),
                },
                None => "-".to_string(),
            };
            format!(
                "{} {} {} {} {} {} {} {} {} {forms} {conc}",
                A::BITS,
                osym::<A>(move || A::try_from_bits(b)),
                osym::<A>(move || Some(A::unsafe_from_bits(b))),
                osym::<A>(move || A::try_from_ascii(b)),
                osym::<A>(move || Some(A::unsafe_from_ascii(b))),
                ch,
                un(A::sym_comp, A::HAS_COMP),
                un(A::sym_mask, A::HAS_MASK),
                un(A::sym_unmask, A::HAS_MASK),
            )
        }
        "items" => {
            let v: Vec<String> = A::items().map(|s| format!("{:02x}", s.to_bits())).collect();
            v.concat()
        }
        "altcode" => {
            // known finding D11: content holding a non-canonical (alternative) code
            let v = eval_v::<A>(&parse_v(t)?)?;
            let text = v.to_string();
            let reparsed = Seq::<A>::from_str(&text)?;
            format!(
                "{} {} {} {}",
                content(&v),
                *v == text.as_str(),
                v == reparsed,
                hash_events(&v) == hash_events(&reparsed)
            )
        }
        _ => return Err(Fail::BadOp(format!("unknown query {q}"))),
    })
}

// ---------------------------------------------------------------------------
// codec-specific queries (IUPAC set algebra, conversions, translation, codon tables)

use bio_seq::codec::text;
use bio_seq::translation::{CodonTable, PartialTranslationTable, TranslationError, TranslationTable, STANDARD};
use std::collections::HashMap;

fn terr<A: Codec, B: Codec>(e: &TranslationError<A, B>) -> &'static str {
    match e {
        TranslationError::AmbiguousCodon(_) => "terr:ambiguouscodon",
        TranslationError::AmbiguousTranslation(_) => "terr:ambiguoustranslation",
        TranslationError::InvalidCodon(_) => "terr:invalidcodon",
        TranslationError::InvalidAmino(_) => "terr:invalidamino",
    }
}

fn codon_table<A: HC>(t: &mut Toks, keys_are_values: bool) -> R<String> {
    let n = t.num()?;
    // keys are re-built for every table (never cloned: a clone would normalise the key's buffer)
    enum KeySrc {
        Hex(Vec<u8>),
        Val(V),
    }
    let build = |k: &KeySrc| -> R<Seq<A>> {
        Ok(match k {
            KeySrc::Hex(h) => Seq::<A>::try_from(h.as_slice())?,
            KeySrc::Val(v) => eval_v::<A>(v)?,
        })
    };
    let mut entries: Vec<(KeySrc, Amino)> = vec![];
    for _ in 0..n {
        let src = if keys_are_values { KeySrc::Val(parse_v(t)?) } else { KeySrc::Hex(t.hex()?) };
        build(&src)?;
        let a = item::<Amino>(t.num()?);
        entries.push((src, a));
    }
    // later pairs with an equal key overwrite the value (HashMap::from_iter)
    let nq = t.num()?;
    enum Q {
        Codon(S),
        Amino(usize),
    }
    let mut qs = vec![];
    for _ in 0..nq {
        match t.next()? {
            "c" => qs.push(Q::Codon(parse_s(t)?)),
            "a" => qs.push(Q::Amino(t.num()?)),
            _ => return Err(Fail::BadOp("codontable query".into())),
        }
    }
    let mut first: Option<String> = None;
    // rebuild several times: every HashMap gets a fresh RandomState, hence a different iteration order
    for _round in 0..12 {
        let mut map: HashMap<Seq<A>, Amino> = HashMap::new();
        for (k, v) in &entries {
            map.insert(build(k)?, *v);
        }
        let table = CodonTable::from_map(map);
        let mut outs = vec![];
        for q in &qs {
            match q {
                Q::Codon(s) => {
                    let r = eval_s::<A, _>(s, &mut |x| {
                        Ok(match table.try_to_amino(x) {
                            Ok(a) => format!("{:02x}", a.to_bits()),
                            Err(e) => terr(&e).to_string(),
                        })
                    })?;
                    outs.push(r);
                }
                Q::Amino(i) => {
                    let a = item::<Amino>(*i);
                    outs.push(match table.try_to_codon(a) {
                        Ok(c) => format!("codon:{}", content(&c)),
                        Err(e) => terr(&e).to_string(),
                    });
                }
            }
        }
        let s = if outs.is_empty() { "-".to_string() } else { outs.join(";") };
        match &first {
            None => first = Some(s),
            Some(f) => {
                if *f != s {
                    return Ok(format!("ORDER-DEPENDENT {f} vs {s}"));
                }
            }
        }
    }
    Ok(first.unwrap())
}

pub fn special(codec: &str, q: &str, t: &mut Toks) -> Option<R<String>> {
    Some((|| -> R<String> {
        Ok(match (codec, q) {
            ("iupac", "contains") => {
                let kind = t.next()?.to_string();
                let a = parse_s(t)?;
                let b = parse_s(t)?;
                match kind.as_str() {
                    "seq" => {
                        let l: Seq<Iupac> = eval_s::<Iupac, _>(&a, &mut |x| Ok(x.to_owned()))?;
                        eval_s::<Iupac, _>(&b, &mut |y| Ok(format!("{}", l.contains(y))))?
                    }
                    "slice" => eval_s::<Iupac, _>(&a, &mut |x| eval_s::<Iupac, _>(&b, &mut |y| Ok(format!("{}", x.contains(y)))))?,
                    // the static-array impl `SeqArray<Iupac, N, W>::contains`, array built by hand
                    "arr" => eval_s::<Iupac, _>(&a, &mut |x| eval_s::<Iupac, _>(&b, &mut |y| iupac_arr_contains(x, y)))?,
                    _ => return Err(Fail::BadOp("contains kind".into())),
                }
            }
            ("dna", "conv") => {
                let target = t.next()?.to_string();
                let s = parse_s(t)?;
                match target.as_str() {
                    "iupac" => eval_s::<Dna, _>(&s, &mut |x| Ok(show(&Seq::<Iupac>::from(x))))?,
                    "text" => eval_s::<Dna, _>(&s, &mut |x| Ok(show(&Seq::<text::Dna>::from(x))))?,
                    _ => return Err(Fail::BadOp("conv target".into())),
                }
            }
            ("dna", "convarr") => {
                // From<&SeqArray<Dna,N,W>> / From<SeqArray<Dna,N,W>> for Seq<Iupac> and Seq<text::Dna>, hand-built array
                let target = t.next()?.to_string();
                let byval = t.next()? == "val";
                let s = parse_s(t)?;
                eval_s::<Dna, _>(&s, &mut |x| dna_convarr(&target, byval, x))?
            }
            ("dna", "toamino") => {
                let s = parse_s(t)?;
                eval_s::<Dna, _>(&s, &mut |x| Ok(format!("{:02x}", STANDARD.to_amino(x).to_bits())))?
            }
            ("dna", "translate") => {
                // translate by windows(3) and by chunks(3)
                let s = parse_s(t)?;
                eval_s::<Dna, _>(&s, &mut |x| {
                    let w: Seq<Amino> = x.windows(3).map(|c| STANDARD.to_amino(c)).collect();
                    let c: Seq<Amino> = x.chunks(3).map(|c| STANDARD.to_amino(c)).collect();
                    Ok(format!("{} {}", content(&w), content(&c)))
                })?
            }
            ("iupac", "trytoamino") => {
                let s = parse_s(t)?;
                eval_s::<Iupac, _>(&s, &mut |x| {
                    Ok(match STANDARD.try_to_amino(x) {
                        Ok(a) => format!("{:02x}", a.to_bits()),
                        Err(e) => terr(&e).to_string(),
                    })
                })?
            }
            ("amino", "trytocodon") => {
                let a = item::<Amino>(t.num()?);
                match STANDARD.try_to_codon(a) {
                    Ok(c) => format!("codon:{}", content(&c)),
                    Err(e) => terr(&e).to_string(),
                }
            }
            ("amino", "tocodon") => {
                let a = item::<Amino>(t.num()?);
                match STANDARD.to_codon(a) {
                    Ok(c) => format!("codon:{}", content(&c)),
                    Err(e) => terr(&e).to_string(),
                }
            }
            ("dna", "macro") | ("iupac", "macro") => {
                // direct call of dna_seq / iupac_seq (source inclusion); the ASCII test of the proc-macro entry point is replicated
                let h = t.hex()?;
                let text = String::from_utf8(h).map_err(|_| Fail::BadOp("utf8".into()))?;
                if !text.is_ascii() {
                    "macroerr nonascii".to_string()
                } else {
                    let lit = syn::LitStr::new(&text, proc_macro2::Span::call_site());
                    let r = if codec == "dna" { crate::derive_src::seqarray::dna_seq(&lit) } else { crate::derive_src::seqarray::iupac_seq(&lit) };
                    match r {
                        Ok((n, bits)) => {
                            let b: String = bits.iter().map(|x| if *x != 0 { '1' } else { '0' }).collect();
                            format!("{n} {}", if b.is_empty() { "-".to_string() } else { b })
                        }
                        Err(_) => "macroerr invalid".to_string(),
                    }
                }
            }
            (_, "derive") => derive_query(t)?,
            (_, "declsrc") => decl_source(t)?,
            ("dna", "codontable") => codon_table::<Dna>(t, false)?,
            ("iupac", "codontable") => codon_table::<Iupac>(t, false)?,
            ("dna", "codontablev") => codon_table::<Dna>(t, true)?,
            ("iupac", "codontablev") => codon_table::<Iupac>(t, true)?,
            _ => return Err(Fail::BadOp("nospecial".into())),
        })
    })())
    .and_then(|r| match r {
        Err(Fail::BadOp(m)) if m == "nospecial" => None,
        other => Some(other),
    })
}

// ---------------------------------------------------------------------------
// #[derive(Codec)] through source inclusion: parse_variants / parse_width on a declaration

fn lit_tok(tok: &str) -> R<String> {
    let (k, v) = tok.split_at(1);
    let n: u64 = if v.is_empty() { 0 } else { v.parse().map_err(|_| Fail::BadOp("lit".into()))? };
    Ok(match k {
        "d" => format!("{n}"),
        "b" => format!("0b{n:b}"),
        "x" => format!("0x{n:X}"),
        "u" => {
            // binary with underscores, as the built-in codecs write them
            let s = format!("{n:08b}");
            format!("0b{}_{}", &s[..4], &s[4..])
        }
        "y" => {
            if (0x20..0x7f).contains(&n) && n != b'\'' as u64 && n != b'\\' as u64 {
                format!("b'{}'", n as u8 as char)
            } else {
                format!("b'\\x{n:02x}'")
            }
        }
        "f" => "1.5".to_string(),
        "t" => "\"a\"".to_string(),
        "n" => format!("-{n}"),
        _ => return Err(Fail::BadOp("lit kind".into())),
    })
}

pub fn decl_source(t: &mut Toks) -> R<String> {
    let bits = t.next()?.to_string();
    let n = t.num()?;
    let mut src = String::new();
    if bits != "-" {
        src.push_str(&format!("#[bits({bits})] "));
    }
    src.push_str("#[repr(u8)] pub enum E { ");
    for _ in 0..n {
        let ident = t.next()?.to_string();
        let disc = t.next()?.to_string();
        let display = t.next()?.to_string();
        let nalts = t.num()?;
        // "|" separates several #[alt(..)] attributes on the same variant
        let mut alt_groups: Vec<Vec<String>> = vec![vec![]];
        for _ in 0..nalts {
            let tok = t.next()?;
            if tok == "|" {
                alt_groups.push(vec![]);
            } else {
                alt_groups.last_mut().unwrap().push(lit_tok(tok)?);
            }
        }
        if display != "-" {
            let cp: u32 = display.parse().map_err(|_| Fail::BadOp("display".into()))?;
            let ch = char::from_u32(cp).ok_or(Fail::BadOp("display cp".into()))?;
            src.push_str(&format!("#[display({:?})] ", ch));
        }
        for alts in &alt_groups {
            if !alts.is_empty() {
                src.push_str(&format!("#[alt({})] ", alts.join(", ")));
            }
        }
        if disc == "-" {
            src.push_str(&format!("{ident}, "));
        } else {
            src.push_str(&format!("{ident} = {}, ", lit_tok(&disc)?));
        }
    }
    src.push('}');
    Ok(src)
}

fn pat_value(p: &str) -> Option<u64> {
    let p = p.trim().replace('_', "");
    let p = p.trim_end_matches("u8").to_string();
    if let Some(b) = p.strip_prefix("0b") {
        return u64::from_str_radix(b, 2).ok();
    }
    if let Some(h) = p.strip_prefix("0x") {
        return u64::from_str_radix(h, 16).ok();
    }
    if p.starts_with("b'") {
        let l: syn::LitByte = syn::parse_str(&p).ok()?;
        return Some(l.value() as u64);
    }
    p.parse::<u64>().ok()
}

pub fn derive_query(t: &mut Toks) -> R<String> {
    use crate::derive_src::codec::{parse_variants, parse_width};
    let src = decl_source(t)?;
    let e: syn::ItemEnum = syn::parse_str(&src).map_err(|e| Fail::BadOp(format!("syn: {e}")))?;
    let decl = crate::decls::enum_decl(&e);
    let pv = catch_unwind(std::panic::AssertUnwindSafe(|| parse_variants(&e.variants).map_err(|_| ())));
    let v = match pv {
        Ok(Ok(v)) => v,
        Ok(Err(())) => return Ok("deriveerr".into()),
        Err(_) => return Ok("derivepanic".into()),
    };
    let attrs = e.attrs.clone();
    let maxd = v.max_discriminant;
    let w = match catch_unwind(move || parse_width(&attrs, maxd).map_err(|_| ())) {
        Ok(Ok(w)) => w,
        Ok(Err(())) => return Ok("deriveerr".into()),
        Err(_) => return Ok("derivepanic".into()),
    };
    // variant ident -> discriminant
    let mut disc_of: HashMap<String, u64> = HashMap::new();
    for var in decl["variants"].as_array().unwrap() {
        disc_of.insert(var["ident"].as_str().unwrap().to_string(), var["disc"].as_u64().unwrap_or(999));
    }
    let variant_of = |rhs: &str| -> Option<u64> {
        let id = rhs.rsplit("::").next()?.trim().trim_end_matches(')').trim().to_string();
        disc_of.get(&id).copied()
    };
    let arms = |ts: &Vec<proc_macro2::TokenStream>| -> Vec<(u64, u64)> {
        ts.iter()
            .filter_map(|a| {
                let s = a.to_string();
                let (p, r) = s.split_once("=>")?;
                Some((pat_value(p)?, variant_of(r)?))
            })
            .collect()
    };
    let bit_arms = arms(&v.alts);
    let char_arms = arms(&v.from_chars);
    let table = |arms: &Vec<(u64, u64)>| -> String {
        (0..256u64)
            .map(|b| match arms.iter().find(|a| a.0 == b) {
                Some(a) => format!("{:02x}", a.1),
                None => "--".to_string(),
            })
            .collect()
    };
    let chars: Vec<String> = v
        .to_chars
        .iter()
        .filter_map(|a| {
            let s = a.to_string();
            let (l, r) = s.split_once("=>")?;
            Some(format!("{:02x}:{:02x}", variant_of(l)?, pat_value(r)?))
        })
        .collect();
    let items: Vec<String> = v.idents.iter().map(|i| format!("{:02x}", disc_of.get(&i.to_string()).copied().unwrap_or(999))).collect();
    Ok(format!("w={w} items={} tfb={} tfa={} chars={}", items.concat(), table(&bit_arms), table(&char_arms), chars.join(",")))
}
