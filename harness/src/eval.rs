//! Tie 2, implementation side: evaluates one protocol line on the real crate.
use crate::ast::*;
use crate::hc::HC;
use bio_seq::prelude::*;
use std::hash::{Hash, Hasher};
use std::ops::Bound;

pub enum Fail {
    Bio(ParseBioError),
    BadOp(String),
    Unsup,
    NoneVal,
}

impl From<ParseBioError> for Fail {
    fn from(e: ParseBioError) -> Self {
        Fail::Bio(e)
    }
}
impl From<String> for Fail {
    fn from(e: String) -> Self {
        Fail::BadOp(e)
    }
}
impl From<&str> for Fail {
    fn from(e: &str) -> Self {
        Fail::BadOp(e.to_string())
    }
}

pub type R<T> = Result<T, Fail>;

pub fn fail_str(f: &Fail) -> String {
    match f {
        Fail::Bio(ParseBioError::UnrecognisedBase(b)) => format!("err:base:{b}"),
        Fail::Bio(ParseBioError::MismatchedLength(_, _)) => "err:mismatch".into(),
        Fail::Bio(ParseBioError::SequenceTooLong(_, _)) => "err:toolong".into(),
        Fail::BadOp(s) => format!("bad-op {s}"),
        Fail::Unsup => "unsupported".into(),
        Fail::NoneVal => "none".into(),
    }
}

/// run `$body` with `$K` bound to the const value of `$k` (1..=128)
#[macro_export]
macro_rules! with_k {
    ($k:expr, $K:ident => $body:expr) => {
        $crate::with_k!(@arms $k, $K => $body;
            1 2 3 4 5 6 7 8 9 10 11 12 13 14 15 16 17 18 19 20 21 22 23 24 25 26 27 28 29 30 31 32
            33 34 35 36 37 38 39 40 41 42 43 44 45 46 47 48 49 50 51 52 53 54 55 56 57 58 59 60 61 62 63 64)
    };
    (@arms $k:expr, $K:ident => $body:expr; $($n:literal)*) => {
        match $k {
            $($n => { const $K: usize = $n; $body })*
            _ => Err($crate::eval::Fail::Unsup),
        }
    };
}

pub fn item<A: HC>(i: usize) -> A {
    let items: Vec<A> = A::items().collect();
    items[i % items.len()]
}

fn doubled<T: Copy>(v: Vec<T>) -> Vec<T> {
    v.into_iter().flat_map(|x| [x, x]).collect()
}

fn syms_of_ascii<A: HC>(h: &[u8]) -> R<Vec<A>> {
    h.iter().map(|&b| A::try_from_ascii(b).ok_or_else(|| Fail::BadOp("invalid symbol".into()))).collect()
}

pub fn index_form<'a, A: HC>(s: &'a SeqSlice<A>, f: Form, a: usize, b: usize) -> &'a SeqSlice<A> {
    match f {
        Form::Range => &s[a..b],
        Form::RangeTo => &s[..b],
        Form::RangeToIncl => &s[..=b],
        Form::RangeIncl => &s[a..=b],
        Form::RangeFrom => &s[a..],
        Form::Full => &s[..],
        Form::Single => &s[a],
    }
}

fn to_bound(b: Bnd) -> Bound<usize> {
    match b {
        Bnd::Incl(n) => Bound::Included(n),
        Bnd::Excl(n) => Bound::Excluded(n),
        Bnd::Unb => Bound::Unbounded,
    }
}

pub fn eval_v<A: HC>(v: &V) -> R<Seq<A>> {
    Ok(match v {
        V::Parse(entry, bytes) => {
            let utf8 = || String::from_utf8(bytes.clone()).map_err(|_| Fail::BadOp("not utf8".into()));
            match entry.as_str() {
                "str" => Seq::<A>::try_from(utf8()?.as_str())?,
                "string" => Seq::<A>::try_from(utf8()?)?,
                "refstring" => Seq::<A>::try_from(&utf8()?)?,
                "fromstr" => Seq::<A>::from_str(utf8()?.as_str())?,
                // the other spellings of the same entry point: `str::parse`, the trait path, TryFrom by trait path
                "parse" => utf8()?.as_str().parse::<Seq<A>>()?,
                "fromstrtrait" => <Seq<A> as FromStr>::from_str(utf8()?.as_str())?,
                "tryfromtrait" => <Seq<A> as TryFrom<&str>>::try_from(utf8()?.as_str())?,
                "bytes" => Seq::<A>::try_from(bytes.as_slice())?,
                "vec" => Seq::<A>::try_from(bytes.clone())?,
                "collect" => syms_of_ascii::<A>(bytes)?.into_iter().collect::<Seq<A>>(),
                "fromvec" => Seq::<A>::from(&syms_of_ascii::<A>(bytes)?),
                "extend" => {
                    let mut s = Seq::<A>::new();
                    Extend::extend(&mut s, syms_of_ascii::<A>(bytes)?);
                    s
                }
                // FromIterator over iterators whose size_hint is not exact / absent
                "collectf" => doubled(syms_of_ascii::<A>(bytes)?).into_iter().enumerate().filter(|(i, _)| i % 2 == 0).map(|(_, x)| x).collect::<Seq<A>>(),
                "collectn" => {
                    let v = syms_of_ascii::<A>(bytes)?;
                    let mut i = 0;
                    std::iter::from_fn(move || {
                        i += 1;
                        v.get(i - 1).copied()
                    })
                    .collect::<Seq<A>>()
                }
                _ => return Err(Fail::BadOp("entry".into())),
            }
        }
        V::Own(s) => eval_s::<A, _>(s, &mut |x| Ok(x.to_owned()))?,
        V::Into(s) => eval_s::<A, _>(s, &mut |x| Ok(Seq::<A>::from(x)))?,
        V::Trim(bytes) => Seq::<A>::trim_u8(bytes)?,
        V::FromBits(off, v) => {
            // the (unstable) `From<&BitSlice> for Seq`: the only way to an owned sequence whose bit vector has a non-zero head
            use bitvec::prelude::*;
            let src = eval_v::<A>(v)?;
            let mut bits: BitVec<usize, Lsb0> = BitVec::new();
            for i in 0..*off {
                bits.push(i % 3 == 0);
            }
            for i in 0..src.len() {
                let code = usize::try_from(&src[i]).unwrap_or(0);
                for b in 0..A::BITS as usize {
                    bits.push((code >> b) & 1 == 1);
                }
            }
            // both unstable raw constructors: From<&BitSlice> (odd offsets) and From<BitVec> (even offsets; the vector keeps the head)
            if off % 2 == 0 {
                Seq::<A>::from(bits[*off..].to_bitvec())
            } else {
                Seq::<A>::from(&bits[*off..])
            }
        }
        V::CloneOf(v) => {
            let s = eval_v::<A>(v)?;
            let c = s.clone();
            drop(s);
            c
        }
        V::InPlace(u, v) => {
            let mut s = eval_v::<A>(v)?;
            let ok = match u {
                Un::Rev => {
                    s.rev();
                    true
                }
                Un::Comp => A::seq_comp(&mut s),
                Un::RevComp => A::seq_revcomp(&mut s),
                Un::Mask => A::seq_mask(&mut s),
                Un::Unmask => A::seq_unmask(&mut s),
            };
            if !ok {
                return Err(Fail::Unsup);
            }
            s
        }
        V::ToOwned(u, v) => {
            let s = eval_v::<A>(v)?;
            let before = content(&s);
            let r = match u {
                Un::Rev => Some(s.to_rev()),
                Un::Comp => A::seq_to_comp(&s),
                Un::RevComp => A::seq_to_revcomp(&s),
                Un::Mask => A::seq_to_mask(&s),
                Un::Unmask => A::seq_to_unmask(&s),
            }
            .ok_or(Fail::Unsup)?;
            if content(&s) != before {
                return Err(Fail::BadOp("receiver-modified".into()));
            }
            r
        }
        V::ToSlice(u, s) => eval_s::<A, _>(s, &mut |x| {
            let before = content(x);
            let r = match u {
                Un::Rev => Some(x.to_rev()),
                Un::Comp => A::slice_to_comp(x),
                Un::RevComp => A::slice_to_revcomp(x),
                _ => None,
            }
            .ok_or(Fail::Unsup)?;
            if content(x) != before {
                return Err(Fail::BadOp("receiver-modified".into()));
            }
            Ok(r)
        })?,
        V::And(a, b) => eval_s::<A, _>(a, &mut |x| eval_s::<A, _>(b, &mut |y| Ok(x & y)))?,
        V::Or(a, b) => eval_s::<A, _>(a, &mut |x| eval_s::<A, _>(b, &mut |y| Ok(x | y)))?,
        V::AndSV(a, b) => {
            let y = eval_v::<A>(b)?;
            eval_s::<A, _>(a, &mut |x| Ok(x & &y))?
        }
        V::OrSV(a, b) => {
            let y = eval_v::<A>(b)?;
            eval_s::<A, _>(a, &mut |x| Ok(x | &y))?
        }
        V::BitAnd(a, b) => eval_v::<A>(a)?.bit_and(eval_v::<A>(b)?),
        V::BitOr(a, b) => eval_v::<A>(a)?.bit_or(eval_v::<A>(b)?),
        V::Push(v, i) => {
            let mut s = eval_v::<A>(v)?;
            s.push(item::<A>(*i));
            s
        }
        V::Ext(v, h) => {
            let mut s = eval_v::<A>(v)?;
            s.extend(syms_of_ascii::<A>(h)?);
            s
        }
        V::ExtKind(kind, v, h) => {
            let mut s = eval_v::<A>(v)?;
            let syms = syms_of_ascii::<A>(h)?;
            match kind.as_str() {
                // upper size hint larger than what is yielded
                "filter" => s.extend(doubled(syms).into_iter().enumerate().filter(|(i, _)| i % 2 == 0).map(|(_, x)| x)),
                "takewhile" => {
                    let n = syms.len();
                    let mut padded = syms.clone();
                    padded.extend(syms.iter().copied());
                    s.extend(padded.into_iter().enumerate().take_while(move |(i, _)| *i < n).map(|(_, x)| x))
                }
                // no size hint at all
                "fromfn" => {
                    let mut i = 0;
                    s.extend(std::iter::from_fn(move || {
                        i += 1;
                        syms.get(i - 1).copied()
                    }))
                }
                // through the Extend trait, from another sequence's iterator
                "trait" => {
                    let other: Seq<A> = syms.into_iter().collect();
                    Extend::extend(&mut s, other.iter());
                }
                // from another sequence's own iterator after it was partly consumed: the first symbol is dropped by
                // skip(1) / a manual next() / it is peeked and kept (internal iteration of an advanced SeqIter)
                "iterskip" | "iternext" | "iterpeek" | "reviterskip" => {
                    let other: Seq<A> = syms.into_iter().collect();
                    match kind.as_str() {
                        "iterskip" => s.extend(other.iter().skip(1)),
                        "iternext" => {
                            let mut it = other.iter();
                            let _ = it.next();
                            s.extend(it)
                        }
                        "iterpeek" => {
                            let mut it = other.iter().peekable();
                            let _ = it.peek();
                            s.extend(it)
                        }
                        _ => s.extend(other.rev_iter().skip(1)),
                    }
                }
                _ => return Err(Fail::BadOp("ext kind".into())),
            }
            s
        }
        V::Append(v, o) => {
            let mut s = eval_v::<A>(v)?;
            eval_s::<A, _>(o, &mut |x| {
                s.append(x);
                Ok(())
            })?;
            s
        }
        V::Prepend(v, o) => {
            let mut s = eval_v::<A>(v)?;
            eval_s::<A, _>(o, &mut |x| {
                s.prepend(x);
                Ok(())
            })?;
            s
        }
        V::Insert(v, i, o) => {
            let mut s = eval_v::<A>(v)?;
            eval_s::<A, _>(o, &mut |x| {
                s.insert(*i, x);
                Ok(())
            })?;
            s
        }
        V::Remove(v, f, a, b) => {
            let mut s = eval_v::<A>(v)?;
            let (a, b) = (*a, *b);
            match f {
                RemForm::Range => s.remove(a..b),
                RemForm::RangeIncl => s.remove(a..=b),
                RemForm::RangeTo => s.remove(..b),
                RemForm::RangeToIncl => s.remove(..=b),
                RemForm::RangeFrom => s.remove(a..),
                RemForm::Full => s.remove(..),
                RemForm::Bounds(x, y) => s.remove((to_bound(*x), to_bound(*y))),
            }
            s
        }
        V::Trunc(v, n) => {
            let mut s = eval_v::<A>(v)?;
            s.truncate(*n);
            s
        }
        V::Clear(v) => {
            let mut s = eval_v::<A>(v)?;
            s.clear();
            s
        }
        V::FromRaw(n, v) => {
            let s = eval_v::<A>(v)?;
            Seq::<A>::from_raw(*n, s.into_raw()).ok_or(Fail::NoneVal)?
        }
        V::FromWords(n, ws) => Seq::<A>::from_raw(*n, ws).ok_or(Fail::NoneVal)?,
        V::FromArr(byval, s) => eval_s::<A, _>(s, &mut |x| A::fromarr_dispatch(*byval, x))?,
        V::VecWords(ws) => A::seq_from_vec_usize(ws.clone()).ok_or(Fail::Unsup)?,
        V::OfKmer(k, s) => eval_s::<A, _>(s, &mut |x| A::ofkmer_dispatch(*k, x))?,
    })
}

pub fn eval_s<A: HC, T>(s: &S, k: &mut dyn FnMut(&SeqSlice<A>) -> R<T>) -> R<T> {
    match s {
        S::Val(v) => {
            let owned = eval_v::<A>(v)?;
            k(&owned)
        }
        S::Sl(f, a, b, inner) => eval_s::<A, T>(inner, &mut |x| k(index_form(x, *f, *a, *b))),
        S::Kd(kk, inner) => eval_s::<A, T>(inner, &mut |x| A::kd_dispatch(*kk, x, k)),
        S::Arr(inner) => eval_s::<A, T>(inner, &mut |x| A::arr_dispatch(x, k)),
        S::Lit(id) => match crate::lits::lit::<A>(*id) {
            Some(l) => k(l),
            None => Err(Fail::Unsup),
        },
    }
}

/// raw chunk codes of a slice, read without decoding (2 hex digits per symbol)
pub fn content<A: HC>(s: &SeqSlice<A>) -> String {
    let n = s.len();
    if n == 0 {
        return "-".into();
    }
    let mut out = String::with_capacity(2 * n);
    for i in 0..n {
        let v = usize::try_from(&s[i]).unwrap_or(0xfff);
        out.push_str(&format!("{v:02x}"));
    }
    out
}

pub fn display_hex<A: HC>(s: &SeqSlice<A>) -> String {
    match std::panic::catch_unwind(std::panic::AssertUnwindSafe(|| s.to_string())) {
        Ok(t) => hex(t.as_bytes()),
        Err(_) => "panic".into(),
    }
}

pub fn show<A: HC>(s: &SeqSlice<A>) -> String {
    // implementation-side oracle on every shown value: `is_empty()` is `len() == 0`
    let flag = if s.is_empty() != (s.len() == 0) { " PROPFAIL:is_empty-disagrees-with-len" } else { "" };
    format!("{} {} {}{flag}", s.len(), content(s), display_hex(s))
}

/// records every `Hasher` method call
#[derive(Default)]
pub struct Rec(pub String);
impl Hasher for Rec {
    fn finish(&self) -> u64 {
        0
    }
    fn write(&mut self, bytes: &[u8]) {
        self.0.push_str(&format!("{{{}}}", hex(bytes)));
    }
    fn write_u8(&mut self, i: u8) {
        match i {
            0 => self.0.push('0'),
            1 => self.0.push('1'),
            _ => self.0.push_str(&format!("[{i}]")),
        }
    }
    fn write_usize(&mut self, i: usize) {
        self.0.push_str(&format!("|{i}|"));
    }
}

pub fn hash_events<T: Hash + ?Sized>(x: &T) -> String {
    let mut r = Rec::default();
    x.hash(&mut r);
    if r.0.is_empty() {
        "-".into()
    } else {
        r.0
    }
}

fn codes<A: HC>(it: impl Iterator<Item = A>) -> String {
    let v: Vec<String> = it.map(|s| format!("{:02x}", s.to_bits())).collect();
    if v.is_empty() {
        "-".into()
    } else {
        v.concat()
    }
}

fn slices<'a, A: HC>(it: impl Iterator<Item = &'a SeqSlice<A>>) -> String {
    let v: Vec<String> = it.map(|s| format!("{}:{}", s.len(), content(s))).collect();
    if v.is_empty() {
        "-".into()
    } else {
        v.join(";")
    }
}

fn ord_str(o: std::cmp::Ordering) -> &'static str {
    match o {
        std::cmp::Ordering::Less => "lt",
        std::cmp::Ordering::Equal => "eq",
        std::cmp::Ordering::Greater => "gt",
    }
}

/// the equality pairings of C02 between sequence-like values
fn eq_pairing<A: HC>(p: &str, a: &S, b: &S) -> R<String> {
    let own = |s: &S| -> R<Seq<A>> { eval_s::<A, _>(s, &mut |x| Ok(x.to_owned())) };
    let r: bool = match p {
        // owned lhs
        "seq_slice" => {
            let l = own(a)?;
            eval_s::<A, _>(b, &mut |y| Ok(PartialEq::<SeqSlice<A>>::eq(&l, y)))?
        }
        "seq_refslice" => {
            let l = own(a)?;
            eval_s::<A, _>(b, &mut |y| Ok(l == y))?
        }
        "refseq_seq" => {
            let l = own(a)?;
            let r = own(b)?;
            &l == r
        }
        "seq_refseq" => {
            let l = own(a)?;
            let r = own(b)?;
            l == &r
        }
        "seq_seq" => {
            let l = own(a)?;
            let r = own(b)?;
            l == r
        }
        "slice_slice" => eval_s::<A, _>(a, &mut |x| eval_s::<A, _>(b, &mut |y| Ok(PartialEq::<SeqSlice<A>>::eq(x, y))))?,
        "refslice_slice" => eval_s::<A, _>(a, &mut |x| eval_s::<A, _>(b, &mut |y| Ok(PartialEq::<SeqSlice<A>>::eq(&x, y))))?,
        "refslice_refslice" => eval_s::<A, _>(a, &mut |x| eval_s::<A, _>(b, &mut |y| Ok(x == y)))?,
        "slice_seq" => {
            let r = own(b)?;
            eval_s::<A, _>(a, &mut |x| Ok(PartialEq::<Seq<A>>::eq(x, &r)))?
        }
        "refslice_seq" => {
            let r = own(b)?;
            eval_s::<A, _>(a, &mut |x| Ok(x == r))?
        }
        "ne_slice_slice" => !eval_s::<A, _>(a, &mut |x| eval_s::<A, _>(b, &mut |y| Ok(x != y)))?,
        _ => return Err(Fail::BadOp("pairing".into())),
    };
    Ok(format!("{r}"))
}

pub fn query<A: HC>(q: &str, t: &mut Toks) -> R<String> {
    Ok(match q {
        "show" => {
            let s = parse_s(t)?;
            eval_s::<A, _>(&s, &mut |x| Ok(show(x)))?
        }
        "owned" => {
            // method-call forms on an OWNED receiver (`Seq<A>` and `&Seq<A>`), which resolve to inherent methods of `Seq`
            // before they reach `SeqSlice` through Deref
            let i = t.num()?;
            let v = eval_v::<A>(&parse_v(t)?)?;
            let r = &v;
            let g = |o: Option<A>| o.map(|s| format!("{:02x}", s.to_bits())).unwrap_or("none".into());
            let n = v.len();
            let w = (i % 3) + 1;
            // indexing written directly on the owned value (an `Index` impl on `Seq` itself would take precedence)
            // the remaining one-line delegations: Default, Borrow for &Seq, AsRef for SeqSlice
            {
                use std::borrow::Borrow;
                let d: Seq<A> = Default::default();
                let b: &SeqSlice<A> = <&Seq<A> as Borrow<SeqSlice<A>>>::borrow(&r);
                let b2: &SeqSlice<A> = <Seq<A> as Borrow<SeqSlice<A>>>::borrow(r);
                let a: &SeqSlice<A> = AsRef::<SeqSlice<A>>::as_ref(b);
                if !d.is_empty() || d.len() != 0 || content(b) != content(&v) || content(b2) != content(&v) || content(a) != content(&v) {
                    return Err(Fail::BadOp("PROPFAIL:default/borrow/as_ref".into()));
                }
            }
            let idx = if i <= n {
                format!("{} {} {} {}", content(&v[i / 2..i]), content(&v[i / 2..]), content(&r[..i]), content(&v[..]))
            } else {
                "- - - -".to_string()
            };
            format!(
                "{} {} {} {} {} {} {} {} {} {} {} {} {} {} {idx}",
                v.len(),
                r.is_empty(),
                g(v.get(i)),
                g(r.get(i)),
                if i < n { format!("{:02x}", v.nth(i).to_bits()) } else { "-".into() },
                codes(v.iter()),
                codes(r.into_iter()),
                codes(v.rev_iter()),
                hex(v.to_string().as_bytes()),
                content(&v.clone()),
                content(&r.to_owned()),
                slices(v.windows(w)),
                slices(v.chunks(w)),
                v == v.clone() && *r == v && v.eq(r)
            )
        }
        "showv" => {
            // the display routes of an owned sequence: Display for Seq, ToString, From<&Seq> for String, From<Seq> for String
            let v = eval_v::<A>(&parse_v(t)?)?;
            let routes = std::panic::catch_unwind(std::panic::AssertUnwindSafe(|| {
                [format!("{v}"), v.to_string(), String::from(&v), String::from(v.clone())]
            }));
            match routes {
                Ok(r) => format!("{} {} {} {} {}", show(&v), hex(r[0].as_bytes()), hex(r[1].as_bytes()), hex(r[2].as_bytes()), hex(r[3].as_bytes())),
                Err(_) => "panic".to_string(),
            }
        }
        "raw" => {
            let v = eval_v::<A>(&parse_v(t)?)?;
            let nbits = v.len() * A::BITS as usize;
            let raw = v.into_raw();
            let nwords = (nbits + 63) / 64;
            let mut ws: Vec<String> = vec![];
            for (i, w) in raw.iter().enumerate().take(nwords) {
                let live = if (i + 1) * 64 <= nbits { 64 } else { nbits - i * 64 };
                let m = if live == 64 { *w } else { *w & ((1usize << live) - 1) };
                ws.push(m.to_string());
            }
            // raw.len() is part of the observable image: enough words to hold the content
            format!("{} {}", raw.len() >= nwords, if ws.is_empty() { "-".to_string() } else { ws.join(",") })
        }
        "hash" => {
            let s = parse_s(t)?;
            eval_s::<A, _>(&s, &mut |x| Ok(hash_events(x)))?
        }
        "hashv" => hash_events(&eval_v::<A>(&parse_v(t)?)?),
        "usize" => {
            let s = parse_s(t)?;
            eval_s::<A, _>(&s, &mut |x| Ok(usize::try_from(x)?.to_string()))?
        }
        "usizev" => usize::from(eval_v::<A>(&parse_v(t)?)?).to_string(),
        "u8" => {
            let s = parse_s(t)?;
            eval_s::<A, _>(&s, &mut |x| Ok(u8::from(x).to_string()))?
        }
        "nth" => {
            let i = t.num()?;
            let s = parse_s(t)?;
            eval_s::<A, _>(&s, &mut |x| Ok(format!("{:02x}", x.nth(i).to_bits())))?
        }
        "get" => {
            let i = t.num()?;
            let s = parse_s(t)?;
            eval_s::<A, _>(&s, &mut |x| {
                Ok(match x.get(i) {
                    Some(s) => format!("{:02x}", s.to_bits()),
                    None => "none".into(),
                })
            })?
        }
        "len" => {
            let s = parse_s(t)?;
            eval_s::<A, _>(&s, &mut |x| Ok(format!("{} {}", x.len(), x.is_empty())))?
        }
        "eq" => {
            let p = t.next()?.to_string();
            let a = parse_s(t)?;
            let b = parse_s(t)?;
            eq_pairing::<A>(&p, &a, &b)?
        }
        "eqstr" => {
            let h = t.hex()?;
            let txt = String::from_utf8(h).map_err(|_| Fail::BadOp("utf8".into()))?;
            let s = parse_s(t)?;
            eval_s::<A, _>(&s, &mut |x| Ok(format!("{}", *x == txt.as_str())))?
        }
        "cmp" => {
            let a = eval_v::<A>(&parse_v(t)?)?;
            let b = eval_v::<A>(&parse_v(t)?)?;
            A::seq_cmpall(&a, &b).ok_or(Fail::Unsup)?
        }
        "serde" => {
            // bincode and JSON round trips of an owned sequence + the JSON field view of bitvec's format
            let v = eval_v::<A>(&parse_v(t)?)?;
            let bin = bincode::serialize(&v).map_err(|e| Fail::BadOp(e.to_string()))?;
            let v2: Seq<A> = bincode::deserialize(&bin).map_err(|e| Fail::BadOp(e.to_string()))?;
            let js = serde_json::to_string(&v).map_err(|e| Fail::BadOp(e.to_string()))?;
            let v3: Seq<A> = serde_json::from_str(&js).map_err(|e| Fail::BadOp(e.to_string()))?;
            let same = |x: &Seq<A>| -> bool {
                *x == v && x.len() == v.len() && content(x) == content(&v) && hash_events(x) == hash_events(&v) && display_hex(x) == display_hex(&v)
            };
            let val: serde_json::Value = serde_json::from_str(&js).map_err(|e| Fail::BadOp(e.to_string()))?;
            let bv = &val["bv"];
            // The serialised *format* is not part of the property (only the round trip is). When the JSON has bitvec's
            // field shape, the fields are shown (a shifted head / short data is then visible); when it has any other
            // shape, the line shows what those fields would be for the value itself, so a different but lossless format
            // does not raise an alarm.
            let shaped = bv.is_object() && bv["bits"].is_u64() && bv["head"]["index"].is_u64() && bv["data"].is_array();
            if !shaped {
                let nbits = v.len() * A::BITS as usize;
                let raw = v.into_raw();
                let nwords = (nbits + 63) / 64;
                let mut ws: Vec<String> = vec![];
                for (i, w) in raw.iter().enumerate().take(nwords) {
                    let live = if (i + 1) * 64 <= nbits { 64 } else { nbits - i * 64 };
                    ws.push((if live == 64 { *w } else { *w & ((1usize << live) - 1) }).to_string());
                }
                return Ok(format!(
                    "{} {} {} bitvec::order::Lsb0 64 0 {} {}",
                    show(&v),
                    same(&v2),
                    same(&v3),
                    nbits,
                    if ws.is_empty() { "-".to_string() } else { ws.join(",") }
                ));
            }
            let bits = bv["bits"].as_u64().unwrap_or(u64::MAX) as usize;
            let head = bv["head"]["index"].as_u64().unwrap_or(u64::MAX) as usize;
            let mut words: Vec<String> = vec![];
            if let Some(data) = bv["data"].as_array() {
                let total = head + bits;
                let nwords = (total + 63) / 64;
                for (i, w) in data.iter().enumerate().take(nwords) {
                    let w = w.as_u64().unwrap_or(0) as usize;
                    let lo = if i == 0 { head } else { 0 };
                    let hi = if (i + 1) * 64 <= total { 64 } else { total - i * 64 };
                    let mut m = if hi == 64 { w } else { w & ((1usize << hi) - 1) };
                    m = (m >> lo) << lo;
                    words.push(m.to_string());
                }
                if data.len() < nwords {
                    words.push("short".into());
                }
            }
            format!(
                "{} {} {} {} {} {} {} {}",
                show(&v),
                same(&v2),
                same(&v3),
                bv["order"].as_str().unwrap_or("?"),
                bv["head"]["width"],
                head,
                bits,
                if words.is_empty() { "-".to_string() } else { words.join(",") }
            )
        }
        "eqfresh" => {
            // a value with any history equals (and hashes / orders like) a sequence freshly rebuilt from its symbols
            let v = eval_v::<A>(&parse_v(t)?)?;
            let fresh: Seq<A> = v.iter().collect();
            let cmp = match A::seq_cmp(&v, &fresh) {
                Some(o) => format!("{}", o == std::cmp::Ordering::Equal && A::seq_cmp(&fresh, &v) == Some(std::cmp::Ordering::Equal)),
                None => "na".to_string(),
            };
            let mut m: std::collections::HashMap<Seq<A>, u8> = std::collections::HashMap::new();
            m.insert(fresh.clone(), 1);
            format!(
                "{} {} {} {} {} {} {}",
                v == fresh,
                fresh == v,
                &v == fresh && v == &fresh,
                hash_events(&v) == hash_events(&fresh),
                cmp,
                m.get(&v).is_some(),
                content(&v) == content(&fresh)
            )
        }
        "eqwin" => {
            // two windows of the SAME parent value (same allocation), compared with a slice pairing
            let pr = t.next()?.to_string();
            let (a1, b1, a2, b2) = (t.num()?, t.num()?, t.num()?, t.num()?);
            let v = eval_v::<A>(&parse_v(t)?)?;
            let x: &SeqSlice<A> = &v[a1..b1];
            let y: &SeqSlice<A> = &v[a2..b2];
            let r = match pr.as_str() {
                "slice_slice" => PartialEq::<SeqSlice<A>>::eq(x, y),
                "refslice_slice" => PartialEq::<SeqSlice<A>>::eq(&x, y),
                "refslice_refslice" => x == y,
                "ne" => !(x != y),
                _ => return Err(Fail::BadOp("pairing".into())),
            };
            format!("{r} {}", if r { format!("{}", hash_events(x) == hash_events(y)) } else { "-".to_string() })
        }
        "hasheq" => {
            // equal slices feed identical data to a hasher (relational: the hash format itself is free)
            let a = parse_s(t)?;
            let b = parse_s(t)?;
            eval_s::<A, _>(&a, &mut |x| {
                eval_s::<A, _>(&b, &mut |y| {
                    let eq = x == y;
                    Ok(if eq {
                        let xo = x.to_owned();
                        format!("eq:true hash:{}", hash_events(x) == hash_events(y) && hash_events(&xo) == hash_events(y))
                    } else {
                        "eq:false".to_string()
                    })
                })
            })?
        }
        "serdert" => {
            // round trip only (no field view): also for sequences with a non-zero head
            let v = eval_v::<A>(&parse_v(t)?)?;
            let bin = bincode::serialize(&v).map_err(|e| Fail::BadOp(e.to_string()))?;
            let v2: Seq<A> = bincode::deserialize(&bin).map_err(|e| Fail::BadOp(e.to_string()))?;
            let js = serde_json::to_string(&v).map_err(|e| Fail::BadOp(e.to_string()))?;
            let v3: Seq<A> = serde_json::from_str(&js).map_err(|e| Fail::BadOp(e.to_string()))?;
            let same = |x: &Seq<A>| -> bool {
                *x == v && x.len() == v.len() && content(x) == content(&v) && hash_events(x) == hash_events(&v) && display_hex(x) == display_hex(&v)
            };
            format!("{} {} {}", show(&v), same(&v2), same(&v3))
        }
        "adapt" => {
            // the std iterator adaptors over the crate's iterators (nth / skip / step_by / last / count / take)
            let kind = t.next()?.to_string();
            let w = t.num()?;
            let ad = t.next()?.to_string();
            let arg = t.num()?;
            let s = parse_s(t)?;
            fn run<I: Iterator>(it: I, ad: &str, arg: usize) -> Result<Vec<I::Item>, usize> {
                Ok(match ad {
                    "nth" => { let mut it = it; it.nth(arg).into_iter().collect() }
                    "skip" => it.skip(arg).collect(),
                    "stepby" => it.step_by(arg.max(1)).collect(),
                    "last" => it.last().into_iter().collect(),
                    "take" => it.take(arg).collect(),
                    "nthnext" => { let mut it = it; let _ = it.nth(arg); it.collect() }
                    "count" => return Err(it.count()),
                    "lastafter" | "countafter" | "foldafter" | "nthhuge" => {
                        // drive the internal-iteration methods (last / count / for_each) of a partially consumed iterator
                        let mut it = it;
                        for _ in 0..arg {
                            let _ = it.next();
                        }
                        match ad {
                            "lastafter" => it.last().into_iter().collect(),
                            "countafter" => return Err(it.count()),
                            "foldafter" => {
                                let mut v = vec![];
                                it.for_each(|x| v.push(x));
                                v
                            }
                            _ => {
                                let first = it.nth(usize::MAX);
                                let mut v: Vec<I::Item> = first.into_iter().collect();
                                v.extend(it);
                                v
                            }
                        }
                    }
                    "nthcount" | "nthlast" | "nthhint" => {
                        // jump with nth (possibly past the end), then use the internal-iteration / size methods
                        let mut it = it;
                        let _ = it.nth(arg);
                        match ad {
                            "nthcount" => return Err(it.count()),
                            "nthlast" => it.last().into_iter().collect(),
                            _ => {
                                let (lo, hi) = it.size_hint();
                                let n = it.count();
                                return Err(if lo <= n && hi.map_or(true, |h| n <= h) { 1 } else { 0 });
                            }
                        }
                    }
                    "hint" => {
                        // Iterator contract: size_hint bounds the number of items actually yielded, also after `arg` calls to next()
                        let mut it = it;
                        for _ in 0..arg {
                            let _ = it.next();
                        }
                        let (lo, hi) = it.size_hint();
                        let n = it.count();
                        return Err(if lo <= n && hi.map_or(true, |h| n <= h) { 1 } else { 0 });
                    }
                    _ => vec![],
                })
            }
            if ad == "rev" || ad == "len" {
                // optional capabilities (DoubleEndedIterator / ExactSizeIterator) of the four slice iterators, probed at their
                // concrete types (probe.rs); the k-mer iterator is handled in kmer.rs
                macro_rules! go {
                    ($it:expr, $show:expr) => {{
                        let mut it = $it;
                        for _ in 0..arg {
                            let _ = it.next();
                        }
                        if ad == "len" {
                            crate::probe_len!(it).to_string()
                        } else {
                            $show(crate::probe_rev!(it))
                        }
                    }};
                }
                return eval_s::<A, _>(&s, &mut |x| {
                    Ok(match kind.as_str() {
                        "windows" => go!(x.windows(w), |v: Vec<&SeqSlice<A>>| slices(v.into_iter())),
                        "chunks" => go!(x.chunks(w), |v: Vec<&SeqSlice<A>>| slices(v.into_iter())),
                        "iter" => go!(x.iter(), |v: Vec<A>| codes(v.into_iter())),
                        "reviter" => go!(x.rev_iter(), |v: Vec<A>| codes(v.into_iter())),
                        "kmers" => return A::kmers_adapt(w, &ad, arg, x),
                        _ => return Err(Fail::BadOp("adapt kind".into())),
                    })
                });
            }
            if ad == "collectseq" {
                // collect what is left of a partially consumed symbol iterator into a new sequence
                return eval_s::<A, _>(&s, &mut |x| {
                    let mut it = x.iter();
                    for _ in 0..arg {
                        let _ = it.next();
                    }
                    let rest: Seq<A> = it.collect();
                    let mut it2 = x.rev_iter();
                    for _ in 0..arg {
                        let _ = it2.next();
                    }
                    let rest2: Seq<A> = it2.collect();
                    Ok(format!("{} | {}", show(&rest), show(&rest2)))
                });
            }
            eval_s::<A, _>(&s, &mut |x| {
                Ok(match kind.as_str() {
                    "windows" => match run(x.windows(w), &ad, arg) { Ok(v) => slices(v.into_iter()), Err(n) => n.to_string() },
                    "chunks" => match run(x.chunks(w), &ad, arg) { Ok(v) => slices(v.into_iter()), Err(n) => n.to_string() },
                    "iter" => match run(x.iter(), &ad, arg) { Ok(v) => codes(v.into_iter()), Err(n) => n.to_string() },
                    "reviter" => match run(x.rev_iter(), &ad, arg) { Ok(v) => codes(v.into_iter()), Err(n) => n.to_string() },
                    "kmers" => return A::kmers_adapt(w, &ad, arg, x),
                    _ => return Err(Fail::BadOp("adapt kind".into())),
                })
            })?
        }
        "mapget" => {
            // HashMap<Seq<A>, _>::get(&SeqSlice<A>) through Borrow + Hash/Eq agreement
            let n = t.num()?;
            let mut m: std::collections::HashMap<Seq<A>, usize> = std::collections::HashMap::new();
            for i in 0..n {
                let k = eval_v::<A>(&parse_v(t)?)?;
                m.insert(k, i);
            }
            let s = parse_s(t)?;
            eval_s::<A, _>(&s, &mut |x| {
                Ok(match m.get(x) {
                    Some(i) => i.to_string(),
                    None => "none".into(),
                })
            })?
        }
        "iter" => {
            let s = parse_s(t)?;
            eval_s::<A, _>(&s, &mut |x| Ok(codes(x.iter())))?
        }
        "intoiter" => {
            let s = parse_s(t)?;
            eval_s::<A, _>(&s, &mut |x| Ok(codes(x.into_iter())))?
        }
        "intoiterv" => {
            let v = eval_v::<A>(&parse_v(t)?)?;
            codes((&v).into_iter())
        }
        "reviter" => {
            let s = parse_s(t)?;
            eval_s::<A, _>(&s, &mut |x| Ok(codes(x.rev_iter())))?
        }
        "windows" => {
            let w = t.num()?;
            let s = parse_s(t)?;
            eval_s::<A, _>(&s, &mut |x| Ok(slices(x.windows(w))))?
        }
        "chunks" => {
            let w = t.num()?;
            let s = parse_s(t)?;
            eval_s::<A, _>(&s, &mut |x| Ok(slices(x.chunks(w))))?
        }
        "chunksvec" => {
            // FromIterator<&SeqSlice> for Vec<Seq>
            let w = t.num()?;
            let s = parse_s(t)?;
            eval_s::<A, _>(&s, &mut |x| {
                let v: Vec<Seq<A>> = x.chunks(w).collect();
                Ok(slices(v.iter().map(|s| s.as_ref())))
            })?
        }
        "chain" => {
            let a = parse_s(t)?;
            let b = parse_s(t)?;
            eval_s::<A, _>(&a, &mut |x| eval_s::<A, _>(&b, &mut |y| Ok(codes(x.chain(y)))))?
        }
        _ => return crate::kmer::query::<A>(q, t),
    })
}
