//! Source translator for *declarative* data only: enum declarations of the
//! derived codecs (discriminants, #[alt], #[display], #[bits]) and the rows of
//! the IUPAC -> amino table, read from the working tree with `syn`.
use serde_json::{json, Value};

fn repo() -> String {
    std::env::var("VERIF_REPO").unwrap_or_else(|_| "/repo".to_string())
}

pub fn lit_value(l: &syn::Lit) -> Option<u64> {
    match l {
        syn::Lit::Int(i) => i.base10_parse::<u64>().ok(),
        syn::Lit::Byte(b) => Some(b.value() as u64),
        _ => None,
    }
}

pub fn enum_decl(e: &syn::ItemEnum) -> Value {
    let mut bits = Value::Null;
    let mut derives_codec = false;
    for a in &e.attrs {
        if a.path().is_ident("bits") {
            if let Ok(w) = a.parse_args::<syn::LitInt>() {
                bits = json!(w.base10_parse::<u64>().unwrap_or(9999));
            }
        }
        if a.path().is_ident("derive") {
            let s = quote::quote!(#a).to_string();
            if s.contains("Codec") {
                derives_codec = true;
            }
        }
    }
    let mut vars = vec![];
    for v in &e.variants {
        let disc = match &v.discriminant {
            Some((_, syn::Expr::Lit(l))) => lit_value(&l.lit).map(|x| json!(x)).unwrap_or(Value::Null),
            _ => Value::Null,
        };
        let mut display = Value::Null;
        let mut alts = vec![];
        for a in &v.attrs {
            if a.path().is_ident("display") {
                if let Ok(c) = a.parse_args::<syn::LitChar>() {
                    display = json!(c.value() as u32);
                }
            } else if a.path().is_ident("alt") {
                if let Ok(ds) = a.parse_args_with(
                    syn::punctuated::Punctuated::<syn::ExprLit, syn::Token![,]>::parse_terminated,
                ) {
                    for d in ds {
                        alts.push(lit_value(&d.lit).map(|x| json!(x)).unwrap_or(Value::Null));
                    }
                }
            }
        }
        vars.push(json!({"ident": v.ident.to_string(), "disc": disc, "display": display, "alts": alts}));
    }
    json!({"name": e.ident.to_string(), "bits": bits, "derives_codec": derives_codec, "variants": vars})
}

fn enums_of(path: &str) -> Vec<Value> {
    let src = match std::fs::read_to_string(path) {
        Ok(s) => s,
        Err(_) => return vec![],
    };
    let file = match syn::parse_file(&src) {
        Ok(f) => f,
        Err(_) => return vec![],
    };
    file.items
        .iter()
        .filter_map(|i| if let syn::Item::Enum(e) = i { Some(enum_decl(e)) } else { None })
        .filter(|d| d["derives_codec"] == json!(true))
        .collect()
}

fn macro_litstr(e: &syn::Expr) -> Option<String> {
    // iupac!("GCN").into()  |  iupac!("GCN")
    match e {
        syn::Expr::MethodCall(m) => macro_litstr(&m.receiver),
        syn::Expr::Macro(m) => m.mac.parse_body::<syn::LitStr>().ok().map(|l| l.value()),
        syn::Expr::Reference(r) => macro_litstr(&r.expr),
        syn::Expr::Paren(p) => macro_litstr(&p.expr),
        _ => None,
    }
}

fn rows() -> Value {
    let path = format!("{}/bio-seq/src/translation/standard.rs", repo());
    let Ok(src) = std::fs::read_to_string(&path) else { return Value::Null };
    let Ok(file) = syn::parse_file(&src) else { return Value::Null };
    for item in &file.items {
        if let syn::Item::Fn(f) = item {
            if f.sig.ident == "initialise_iupac_to_amino" {
                if let Some(syn::Stmt::Expr(syn::Expr::Array(arr), _)) = f.block.stmts.last() {
                    let mut out = vec![];
                    for el in &arr.elems {
                        let syn::Expr::Tuple(t) = el else { return Value::Null };
                        if t.elems.len() != 2 {
                            return Value::Null;
                        }
                        let Some(pat) = macro_litstr(&t.elems[0]) else { return Value::Null };
                        let syn::Expr::Path(p) = &t.elems[1] else { return Value::Null };
                        let Some(seg) = p.path.segments.last() else { return Value::Null };
                        out.push(json!([pat, seg.ident.to_string()]));
                    }
                    return json!(out);
                }
            }
        }
    }
    Value::Null
}

pub fn run() -> Value {
    let r = repo();
    json!({
        "iupac": enums_of(&format!("{r}/bio-seq/src/codec/iupac.rs")),
        "amino": enums_of(&format!("{r}/bio-seq/src/codec/amino.rs")),
        "mdna": enums_of(&format!("{r}/bio-seq/src/codec/masked/dna.rs")),
        "miupac": enums_of(&format!("{r}/bio-seq/src/codec/masked/iupac.rs")),
        "rows": rows(),
    })
}
